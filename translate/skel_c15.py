"""Skeleton extractor for C15 (lock discipline of nfc.clf.ContactlessFrontend).

extract(repo_root) parses src/nfc/clf/__init__.py with `ast` and reduces every method and every
nested function of ContactlessFrontend to a statement of coq/Skel/LockSyntax.v:

  self.device.<m>(...)                      -> Dev m       (also through aliases such as
                                                            exchange = self.device.send_cmd_recv_rsp)
  device.connect(path)                      -> Connect
  self.device = device.connect(..) / None   -> DevSet true|false
  if self.device is None / is not None / if self.device     -> IfDev
  with self.lock:                           -> WithLock
  self.<method>(...), <nested function>(...), self.<property>  -> Call
  callbacks (options[...](..), terminate()), nfc.tag.*, nfc.dep.*, nfc.llcp.*, tag.*, llc.*
                                            -> Ext         (code that may call back into the frontend)
  return / raise / break / continue         -> Ret
  everything on the PURE lists below        -> Skip

Expressions are flattened in Python's evaluation order; `and`/`or`/conditional expressions and
comprehensions become Choice/Loop.  The extractor FAILS CLOSED: every ast node type, every called
name, every method called on a value and every use of self.device / self.lock has to be on one of
the explicit lists; anything else raises SkelError (the generated file then does not compile and
every C15 obligation breaks).

Trusted here: the three whitelists (PURE_*, EXT_*, frontend methods).  A wrong whitelist entry
(calling something "pure" that drives the device) is what the dynamic correspondence of
harness/prop/c15.py is there to catch: every observed event trace must be a trace of this skeleton.
"""
import ast
import json
import os

SOURCE = 'src/nfc/clf/__init__.py'
CLASS = 'ContactlessFrontend'


class SkelError(Exception):
    pass


# ---------------------------------------------------------------- whitelists
# builtins / module-level names whose call neither touches the device nor calls back
PURE_FUNCS = {'isinstance', 'len', 'bool', 'max', 'min', 'range', 'tuple', 'dict', 'list', 'type', 'all', 'any',
              'filter', 'str', 'repr', 'int', 'IOError', 'TypeError', 'ValueError', 'AssertionError',
              'RemoteTarget', 'LocalTarget', 'ProtocolError', 'UnsupportedTargetError', 'print_data'}
# dotted module functions that are pure
PURE_DOTTED = {'time.time', 'time.sleep', 'os.strerror', 'nfc.clf.LocalTarget', 'nfc.clf.RemoteTarget',
               'log.debug', 'log.info', 'log.error', 'log.warning', 'log.log', 'log.exception', 'log.critical'}
# dotted names that may be read as values (exception classes, constants)
PURE_DOTTED_VALUES_PREFIX = ('errno.', 'nfc.clf.', 'nfc.tag.TagEmulation', 'nfc.llcp.llc.LogicalLinkController',
                             'logging.')
# methods of plain data values (str, dict, list) that are pure
PURE_METHODS = {'format', 'join', 'endswith', 'startswith', 'capitalize', 'get', 'setdefault', 'append',
                'keys', 'values', 'items', 'lower', 'upper'}
# module prefixes whose functions/classes are code outside the frontend (they receive the frontend
# and call back into it)
EXT_MODULE_PREFIX = ('nfc.tag.', 'nfc.dep.', 'nfc.llcp.')
# local names that hold objects from outside the frontend; every method call on them is Ext
EXT_OBJECT_NAMES = {'tag', 'llc'}
EXT_ATTR_READS = {'is_present'}      # properties of such objects that run outside code when read
PURE_ATTR_READS = {'cmd'}            # plain data attributes of such objects
MODULE_NAMES = {'nfc', 'time', 'os', 'errno', 'log', 'logging', 'device', 'threading', 'binascii', 're'}


# ---------------------------------------------------------------- statement constructors
SKIP = ['Skip']
RET = ['Ret']


def seq(*xs):
    out = None
    for x in xs:
        if x == SKIP:
            continue
        out = x if out is None else ['Seq', out, x]
    return out if out is not None else SKIP


def choice(a, b):
    return a if a == b else ['Choice', a, b]


def choices(xs):
    xs = list(xs)
    out = xs[-1]
    for x in reversed(xs[:-1]):
        out = choice(x, out)
    return out


def loop(a):
    return SKIP if a == SKIP else ['Loop', a]


def try_(a, h):
    return SKIP if (a == SKIP and h == SKIP) else ['Try', a, h]


def dotted(node):
    """a.b.c as 'a.b.c' if node is a pure attribute chain rooted in a Name, else None"""
    parts = []
    while isinstance(node, ast.Attribute):
        parts.append(node.attr)
        node = node.value
    if isinstance(node, ast.Name):
        parts.append(node.id)
        return '.'.join(reversed(parts))
    return None


def is_self_attr(node, attr=None):
    return (isinstance(node, ast.Attribute) and isinstance(node.value, ast.Name) and node.value.id == 'self'
            and (attr is None or node.attr == attr))


class FunctionExtractor:
    def __init__(self, ctx, qualname, fdef, outer_nested):
        self.ctx = ctx                      # ClassExtractor
        self.qual = qualname
        self.fdef = fdef
        self.lock_depth = 0
        self.is_init = qualname == '__init__'
        self.lock_created = not self.is_init
        # nested functions visible here: own ones and those of enclosing functions
        self.nested = dict(outer_nested)
        for node in self._own_nodes():
            if isinstance(node, ast.FunctionDef):
                if node.name in self.nested and self.nested[node.name].startswith(qualname + '.'):
                    raise SkelError('%s: nested function %s defined twice' % (qualname, node.name))
                self.nested[node.name] = qualname + '.' + node.name
        a = fdef.args
        if a.posonlyargs or a.kwonlyargs:
            raise SkelError('%s: unsupported parameter kinds' % qualname)
        self.params = [x.arg for x in a.args] + ([a.vararg.arg] if a.vararg else []) + ([a.kwarg.arg] if a.kwarg else [])
        for d in list(a.defaults) + list(a.kw_defaults):
            if d is not None and self.expr(d) != SKIP:
                raise SkelError('%s: default value with effects' % qualname)
        # locals and aliases (pre-pass over the function's own statements, not nested defs)
        self.aliases = {}
        self.locals = set(self.params)
        for node in self._own_nodes():
            if isinstance(node, ast.Assign):
                v = node.value
                is_alias = (isinstance(v, ast.Attribute) and is_self_attr(v.value, 'device'))
                for t in node.targets:
                    for n in ast.walk(t):
                        if isinstance(n, ast.Name):
                            self.locals.add(n.id)
                    if is_alias:
                        if not isinstance(t, ast.Name) or len(node.targets) != 1:
                            raise SkelError('%s: unsupported alias of a driver method (line %d)' % (qualname, node.lineno))
                        self.aliases.setdefault(t.id, set()).add(v.attr)
            elif isinstance(node, (ast.For, ast.comprehension)):
                for n in ast.walk(node.target):
                    if isinstance(n, ast.Name):
                        self.locals.add(n.id)
            elif isinstance(node, ast.ExceptHandler) and node.name:
                self.locals.add(node.name)
            elif isinstance(node, (ast.AugAssign, ast.AnnAssign, ast.NamedExpr, ast.Global, ast.Nonlocal, ast.Delete,
                                   ast.Import, ast.ImportFrom, ast.ClassDef)):
                if not isinstance(node, ast.AugAssign):
                    raise SkelError('%s: unsupported statement %s (line %d)' % (qualname, type(node).__name__, node.lineno))
        # an alias name must only ever be bound to driver methods
        for node in self._own_nodes():
            if isinstance(node, ast.Assign):
                v = node.value
                is_alias = (isinstance(v, ast.Attribute) and is_self_attr(v.value, 'device'))
                if not is_alias:
                    for t in node.targets:
                        for n in ast.walk(t):
                            if isinstance(n, ast.Name) and n.id in self.aliases:
                                raise SkelError('%s: name %s is bound to a driver method and to something else' % (qualname, n.id))
            if isinstance(node, (ast.For, ast.comprehension)):
                for n in ast.walk(node.target):
                    if isinstance(n, ast.Name) and n.id in self.aliases:
                        raise SkelError('%s: alias %s rebound by a loop' % (qualname, n.id))
        for p in self.params:
            if p in self.aliases:
                raise SkelError('%s: parameter %s rebound to a driver method' % (qualname, p))

    def _own_nodes(self):
        """all nodes of this function; nested defs are yielded but not entered (lambdas are entered: they
        are required to be pure)"""
        stack = list(self.fdef.body)
        while stack:
            n = stack.pop()
            yield n
            if isinstance(n, ast.FunctionDef):
                continue
            stack.extend(ast.iter_child_nodes(n))

    def fail(self, node, why):
        raise SkelError('%s line %d: %s' % (self.qual, getattr(node, 'lineno', 0), why))

    # ------------------------------------------------------------ statements
    def block(self, stmts):
        return seq(*[self.stmt(s) for s in stmts])

    def stmt(self, s):
        if isinstance(s, ast.Expr):
            if isinstance(s.value, ast.Constant):
                return SKIP
            return self.expr(s.value)
        if isinstance(s, ast.Pass):
            return SKIP
        if isinstance(s, ast.FunctionDef):
            if s.decorator_list:
                self.fail(s, 'decorated nested function')
            self.ctx.add_function(self.nested[s.name], s, self.nested)
            return SKIP
        if isinstance(s, ast.Assign):
            return self.assign(s)
        if isinstance(s, ast.AugAssign):
            return seq(self.expr(s.value), self.store(s.target))
        if isinstance(s, ast.Return):
            if isinstance(s.value, ast.Name) and s.value.id == 'self':
                return RET          # the caller already has the frontend
            return seq(self.expr(s.value) if s.value is not None else SKIP, RET)
        if isinstance(s, ast.Raise):
            return seq(self.expr(s.exc) if s.exc is not None else SKIP,
                       self.expr(s.cause) if s.cause is not None else SKIP, RET)
        if isinstance(s, (ast.Break, ast.Continue)):
            return RET
        if isinstance(s, ast.Assert):
            return seq(self.expr(s.test), choice(SKIP, seq(self.expr(s.msg) if s.msg is not None else SKIP, RET)))
        if isinstance(s, ast.If):
            dt = self.device_test(s.test)
            if dt is not None:
                self.ctx.device_read(self, s.test, 'test')
                some, none = (self.block(s.body), self.block(s.orelse)) if dt else (self.block(s.orelse), self.block(s.body))
                return ['IfDev', some, none]
            return seq(self.expr(s.test), choice(self.block(s.body), self.block(s.orelse)))
        if isinstance(s, ast.While):
            if self.device_test(s.test) is not None:
                self.fail(s, 'while loop on self.device')
            t = self.expr(s.test)
            return seq(t, loop(seq(self.block(s.body), t)), self.block(s.orelse))
        if isinstance(s, ast.For):
            return seq(self.expr(s.iter), self.store(s.target), loop(self.block(s.body)), self.block(s.orelse))
        if isinstance(s, ast.Try):
            body = seq(self.block(s.body), self.block(s.orelse))
            if s.handlers:
                hs = []
                for h in s.handlers:
                    hs.append(seq(self.expr(h.type) if h.type is not None else SKIP, self.block(h.body)))
                body = try_(body, choices(hs))
            if s.finalbody:
                fin = self.block(s.finalbody)
                body = seq(try_(body, seq(fin, RET)), fin)
            return body
        if isinstance(s, ast.With):
            if (len(s.items) == 1 and s.items[0].optional_vars is None and is_self_attr(s.items[0].context_expr, 'lock')):
                if not self.lock_created:
                    self.fail(s, 'with self.lock before the lock exists')
                self.lock_depth += 1
                b = self.block(s.body)
                self.lock_depth -= 1
                return ['WithLock', b]
            self.fail(s, 'with-statement on something else than self.lock')
        self.fail(s, 'unsupported statement ' + type(s).__name__)

    def store(self, t):
        """effects of evaluating an assignment target (never self.device / self.lock here)"""
        if isinstance(t, ast.Name):
            return SKIP
        if isinstance(t, (ast.Tuple, ast.List)):
            return seq(*[self.store(e) for e in t.elts])
        if isinstance(t, ast.Attribute):
            if is_self_attr(t):
                if t.attr in ('device', 'lock'):
                    self.fail(t, 'unsupported store to self.' + t.attr)
                if t.attr in self.ctx.methods:
                    self.fail(t, 'store to a method name')
                return SKIP
            self.fail(t, 'attribute store on something else than self')
        if isinstance(t, ast.Subscript):
            return seq(self.expr(t.value), self.expr(t.slice))
        if isinstance(t, ast.Starred):
            return self.store(t.value)
        self.fail(t, 'unsupported assignment target')

    def assign(self, s):
        v = s.value
        if len(s.targets) == 1 and is_self_attr(s.targets[0], 'device'):
            if isinstance(v, ast.Constant) and v.value is None:
                if self.is_init and not self.lock_created:
                    # the object is being constructed: nobody else can see it and the lock does not exist yet;
                    # this is the initial state (device closed) of the theorems
                    self.ctx.notes.append('__init__ line %d: self.device = None before the lock exists (initial state)' % s.lineno)
                    return SKIP
                return ['DevSet', False]
            if isinstance(v, ast.Call) and dotted(v.func) == 'device.connect':
                args = seq(*[self.expr(a) for a in v.args], *[self.expr(k.value) for k in v.keywords])
                self.ctx.site(self, v, 'device.connect')
                return seq(args, ['Connect'], choice(['DevSet', True], ['DevSet', False]))
            self.fail(s, 'self.device assigned from an unsupported expression')
        if len(s.targets) == 1 and is_self_attr(s.targets[0], 'lock'):
            if (self.is_init and not self.lock_created and self.lock_depth == 0 and isinstance(v, ast.Call)
                    and dotted(v.func) == 'threading.Lock' and not v.args and not v.keywords):
                self.lock_created = True
                self.ctx.lock_kind = 'threading.Lock'
                return SKIP
            self.fail(s, 'self.lock must be created exactly once, in __init__, as threading.Lock()')
        if isinstance(v, ast.Attribute) and is_self_attr(v.value, 'device'):
            return SKIP          # alias of a driver method (recorded in the pre-pass)
        return seq(self.expr(v), *[self.store(t) for t in s.targets])

    def device_test(self, e):
        """True: test holds iff device is not None; False: iff device is None; None: not a device test"""
        if is_self_attr(e, 'device'):
            return True
        if isinstance(e, ast.UnaryOp) and isinstance(e.op, ast.Not) and is_self_attr(e.operand, 'device'):
            return False
        if (isinstance(e, ast.Compare) and len(e.ops) == 1 and is_self_attr(e.left, 'device')
                and isinstance(e.comparators[0], ast.Constant) and e.comparators[0].value is None):
            if isinstance(e.ops[0], ast.IsNot):
                return True
            if isinstance(e.ops[0], ast.Is):
                return False
        return None

    # ------------------------------------------------------------ expressions
    def exprs(self, xs):
        return seq(*[self.expr(x) for x in xs])

    def is_data(self, e):
        """expression denoting a plain value (str, dict, list, Target, exception...): not the device, not self,
        not an outside object, not a module"""
        if isinstance(e, (ast.Constant, ast.JoinedStr, ast.Dict, ast.List, ast.Tuple, ast.BinOp, ast.ListComp,
                          ast.Compare, ast.BoolOp)):
            return True
        if isinstance(e, ast.Name):
            return (e.id in self.all_locals() and e.id not in self.aliases and e.id not in EXT_OBJECT_NAMES
                    and e.id not in self.nested and e.id != 'self')
        if isinstance(e, ast.Attribute):
            if is_self_attr(e):
                return e.attr not in ('device', 'lock') and e.attr not in self.ctx.methods
            return self.is_data(e.value)
        if isinstance(e, ast.Subscript):
            return self.is_data(e.value)
        if isinstance(e, ast.Call):
            # result of a pure method on data, e.g. role.capitalize(), options.get('role')
            f = e.func
            return isinstance(f, ast.Attribute) and f.attr in PURE_METHODS and self.is_data(f.value)
        return False

    def all_locals(self):
        return self.locals | getattr(self, 'outer_locals', set())

    def expr(self, e, readctx=False):
        if e is None or isinstance(e, ast.Constant):
            return SKIP
        if isinstance(e, ast.Name):
            if e.id in self.aliases:
                self.fail(e, 'driver method alias %s used other than by calling it' % e.id)
            if e.id == 'self' and not readctx:
                self.fail(e, 'self escapes')
            if e.id in self.nested:
                # the function object is handed to somebody (e.g. as default callback): it will be run by
                # outside code, so it must not do anything the analysis cares about
                self.ctx.escaping.add(self.nested[e.id])
            return SKIP
        if isinstance(e, ast.Attribute):
            return self.attribute(e, readctx)
        if isinstance(e, ast.Call):
            return self.call(e)
        if isinstance(e, ast.BoolOp):
            out = self.expr(e.values[-1])
            for v in reversed(e.values[:-1]):
                out = seq(self.expr(v), choice(SKIP, out))
            return out
        if isinstance(e, ast.UnaryOp):
            return self.expr(e.operand)
        if isinstance(e, ast.BinOp):
            return seq(self.expr(e.left), self.expr(e.right))
        if isinstance(e, ast.Compare):
            if self.device_test(e) is not None:
                self.fail(e, 'device test outside an if-statement')
            rest = [self.expr(c) for c in e.comparators]
            if any(r != SKIP for r in rest[1:]):
                self.fail(e, 'chained comparison with effects')
            return seq(self.expr(e.left), *rest)
        if isinstance(e, ast.IfExp):
            if self.device_test(e.test) is not None:
                self.fail(e, 'device test in a conditional expression')
            return seq(self.expr(e.test), choice(self.expr(e.body), self.expr(e.orelse)))
        if isinstance(e, ast.Subscript):
            return seq(self.expr(e.value), self.expr(e.slice))
        if isinstance(e, ast.Slice):
            return self.exprs([e.lower, e.upper, e.step])
        if isinstance(e, (ast.Tuple, ast.List, ast.Set)):
            return self.exprs(e.elts)
        if isinstance(e, ast.Dict):
            return seq(*[seq(self.expr(k), self.expr(v)) for k, v in zip(e.keys, e.values)])
        if isinstance(e, ast.Starred):
            return self.expr(e.value)
        if isinstance(e, ast.JoinedStr):
            return self.exprs(e.values)
        if isinstance(e, ast.FormattedValue):
            return self.expr(e.value)
        if isinstance(e, (ast.ListComp, ast.SetComp, ast.GeneratorExp, ast.DictComp)):
            for g in e.generators:
                for n in ast.walk(g.target):
                    if isinstance(n, ast.Name):
                        self.locals.add(n.id)
            inner = seq(self.expr(e.key), self.expr(e.value)) if isinstance(e, ast.DictComp) else self.expr(e.elt)
            for g in reversed(e.generators):
                if g.is_async:
                    self.fail(e, 'async comprehension')
                inner = seq(self.expr(g.iter), loop(seq(self.exprs(g.ifs), inner)))
            return inner
        if isinstance(e, ast.Lambda):
            sub = FunctionExtractor.__new__(FunctionExtractor)
            sub.__dict__.update(self.__dict__)
            a = e.args
            sub.locals = set(self.locals) | {x.arg for x in a.args} | ({a.vararg.arg} if a.vararg else set()) | \
                ({a.kwarg.arg} if a.kwarg else set())
            sub.aliases = dict(self.aliases)
            if sub.expr(e.body) != SKIP:
                self.fail(e, 'lambda whose body is not pure')
            return SKIP
        self.fail(e, 'unsupported expression ' + type(e).__name__)

    def attribute(self, e, readctx):
        # self.device / self.lock / self.<x>
        if is_self_attr(e, 'device'):
            if readctx:
                self.ctx.device_read(self, e, 'value')
                return SKIP
            self.fail(e, 'self.device used in an unsupported way')
        if is_self_attr(e, 'lock'):
            self.fail(e, 'self.lock used outside a with-statement')
        if is_self_attr(e):
            if e.attr in self.ctx.properties:
                return ['Call', e.attr]
            if e.attr in self.ctx.methods:
                self.fail(e, 'bound method self.%s escapes' % e.attr)
            return SKIP
        if is_self_attr(e.value, 'device'):
            self.fail(e, 'driver attribute self.device.%s used other than by calling it' % e.attr)
        d = dotted(e)
        if d is not None:
            root = d.split('.')[0]
            if root in EXT_OBJECT_NAMES and root in self.all_locals():
                if d.count('.') == 1 and e.attr in EXT_ATTR_READS:
                    return ['Ext', d]
                if d.count('.') == 1 and e.attr in PURE_ATTR_READS:
                    return SKIP
                self.fail(e, 'attribute %s of an outside object is not classified' % d)
            if root in MODULE_NAMES and root not in self.all_locals():
                if d.startswith(PURE_DOTTED_VALUES_PREFIX) or d in PURE_DOTTED:
                    return SKIP
                self.fail(e, 'module attribute %s is not classified' % d)
        if self.is_data(e.value):
            return self.expr(e.value)
        self.fail(e, 'attribute read %s on an unclassified value' % (d or e.attr))

    def call(self, e):
        f = e.func
        argnodes = list(e.args) + [k.value for k in e.keywords]
        passes_self = any(isinstance(a, ast.Name) and a.id == 'self' for a in argnodes)
        plain_args = [a for a in argnodes if not (isinstance(a, ast.Name) and a.id == 'self')]

        def args(readctx=False):
            return seq(*[self.expr(a, readctx) for a in plain_args])

        def need_no_self(what):
            if passes_self:
                self.fail(e, 'self passed to ' + what)

        # ---- self.device.<m>(...)
        if isinstance(f, ast.Attribute) and is_self_attr(f.value, 'device'):
            need_no_self('a driver method')
            self.ctx.site(self, e, f.attr)
            return seq(args(), ['Dev', f.attr])
        # ---- self.<method>(...)
        if is_self_attr(f):
            need_no_self('a frontend method')
            if f.attr in self.ctx.properties:
                self.fail(e, 'property called')
            if f.attr in self.ctx.methods:
                return seq(args(), ['Call', f.attr])
            if f.attr == '__repr__' and not argnodes:
                return SKIP
            self.fail(e, 'self.%s(...) is not a method of the class' % f.attr)
        # ---- plain names
        if isinstance(f, ast.Name):
            n = f.id
            if n in self.aliases:
                need_no_self('a driver method')
                for m in sorted(self.aliases[n]):
                    self.ctx.site(self, e, m, alias=n)
                return seq(args(), choices([['Dev', m] for m in sorted(self.aliases[n])]))
            if n in self.nested:
                need_no_self('a nested function')
                return seq(args(), ['Call', self.nested[n]])
            if n in self.all_locals():
                # a callable received from outside (terminate, DEP = eval(...)): outside code
                return seq(args(), ['Ext', n])
            if n == 'bool' and len(argnodes) == 1 and is_self_attr(argnodes[0], 'device'):
                self.ctx.device_read(self, argnodes[0], 'test')
                return SKIP
            if n == 'eval':
                # only the constant-prefix lookup  eval("nfc.dep." + <data>)  is accepted (a name lookup)
                a = argnodes[0] if len(argnodes) == 1 else None
                if (isinstance(a, ast.BinOp) and isinstance(a.op, ast.Add) and isinstance(a.left, ast.Constant)
                        and a.left.value == 'nfc.dep.' and self.is_data(a.right)):
                    return self.expr(a.right)
                self.fail(e, 'eval of an unsupported expression')
            if n in PURE_FUNCS:
                need_no_self('a pure function')
                return args()
            self.fail(e, 'call of unclassified name ' + n)
        # ---- options['on-connect'](tag) and friends: callbacks
        if isinstance(f, ast.Subscript):
            if not self.is_data(f.value):
                self.fail(e, 'callback taken from an unclassified value')
            key = f.slice.value if isinstance(f.slice, ast.Constant) else '?'
            return seq(self.expr(f.value), self.expr(f.slice), args(), ['Ext', '%s[%s]' % (dotted(f.value) or '?', key)])
        # ---- dotted calls
        if isinstance(f, ast.Attribute):
            d = dotted(f)
            if d is not None:
                root = d.split('.')[0]
                if root in self.all_locals():
                    if root in EXT_OBJECT_NAMES:
                        return seq(args(), ['Ext', d])
                elif root in MODULE_NAMES:
                    if d in PURE_DOTTED:
                        need_no_self('a pure function')
                        return args()
                    if d.startswith(EXT_MODULE_PREFIX):
                        return seq(args(), ['Ext', d])
                    self.fail(e, 'call of unclassified module function ' + d)
                else:
                    self.fail(e, 'call on unclassified name ' + d)
            # method of a data value
            if f.attr in PURE_METHODS and self.is_data(f.value):
                need_no_self('a method of a data value')
                # str.format(...) may receive the device: formatting it reads its attributes
                return seq(self.expr(f.value), args(readctx=(f.attr == 'format')))
            self.fail(e, 'method call .%s(...) on an unclassified value' % f.attr)
        self.fail(e, 'unsupported call')


class ClassExtractor:
    def __init__(self, cdef):
        self.cdef = cdef
        self.methods = {}
        self.properties = set()
        self.functions = {}
        self.order = []
        self.sites = []
        self.reads = []
        self.notes = []
        self.lock_kind = None
        self.escaping = set()
        for st in cdef.body:
            if isinstance(st, ast.FunctionDef):
                decos = [dotted(d) for d in st.decorator_list]
                if decos == ['property']:
                    self.properties.add(st.name)
                elif decos:
                    raise SkelError('method %s has unsupported decorators %s' % (st.name, decos))
                if st.name in self.methods:
                    raise SkelError('method %s defined twice' % st.name)
                self.methods[st.name] = st
            elif isinstance(st, ast.Expr) and isinstance(st.value, ast.Constant):
                pass
            else:
                raise SkelError('unsupported class-level statement %s (line %d)' % (type(st).__name__, st.lineno))

    def add_function(self, qual, fdef, outer_nested, outer_locals=()):
        fx = FunctionExtractor(self, qual, fdef, outer_nested)
        fx.outer_locals = set(outer_locals)
        self._stack = getattr(self, '_stack', [])
        if self._stack:
            parent = self._stack[-1]
            fx.outer_locals = parent.all_locals()
            fx.lock_created = True
        self._stack.append(fx)
        try:
            body = fx.block(fdef.body)
        finally:
            self._stack.pop()
        if fx.is_init and not fx.lock_created:
            raise SkelError('__init__ does not create self.lock')
        self.functions[qual] = body
        self.order.append(qual)

    def site(self, fx, node, method, alias=None):
        self.sites.append({'function': fx.qual, 'line': node.lineno, 'method': method,
                           'lexically_locked': fx.lock_depth > 0, **({'alias': alias} if alias else {})})

    def device_read(self, fx, node, kind):
        self.reads.append({'function': fx.qual, 'line': node.lineno, 'kind': kind, 'lexically_locked': fx.lock_depth > 0})

    def run(self):
        if '__init__' not in self.methods:
            raise SkelError('no __init__')
        for name, fdef in self.methods.items():
            self.add_function(name, fdef, {})
        if self.lock_kind != 'threading.Lock':
            raise SkelError('frontend lock is not a threading.Lock')
        for q in sorted(self.escaping):
            if not event_free(self.functions[q]):
                raise SkelError('nested function %s is passed around as a value but is not pure' % q)


def event_free(s):
    return s[0] in ('Skip', 'Ret') or (s[0] in ('Seq', 'Choice', 'Loop', 'Try') and all(event_free(x) for x in s[1:]))


def extract(repo_root):
    path = os.path.join(repo_root, SOURCE)
    tree = ast.parse(open(path).read(), path)
    cdefs = [n for n in tree.body if isinstance(n, ast.ClassDef) and n.name == CLASS]
    if len(cdefs) != 1:
        raise SkelError('class %s not found exactly once' % CLASS)
    # nothing else in the module may touch a frontend's device or lock
    for n in tree.body:
        if n is cdefs[0]:
            continue
        for x in ast.walk(n):
            if isinstance(x, ast.Attribute) and x.attr in ('device', 'lock') and not (
                    isinstance(x.value, ast.Name) and x.value.id in ('nfc', 'clf')):
                raise SkelError('module-level code outside %s touches .%s (line %d)' % (CLASS, x.attr, x.lineno))
    cx = ClassExtractor(cdefs[0])
    cx.run()
    entry = [m for m in cx.methods if m != '__init__']
    return {'source': SOURCE, 'class': CLASS, 'lock': cx.lock_kind,
            'functions': {q: cx.functions[q] for q in cx.order}, 'order': cx.order,
            'entry': entry, 'init': '__init__', 'properties': sorted(cx.properties),
            'driver_call_sites': cx.sites, 'device_reads': cx.reads, 'notes': cx.notes}


# ---------------------------------------------------------------- Coq output
def coq_str(s):
    return '"' + s.replace('"', '""') + '"'


def coq_stmt(s, ind=2):
    k = s[0]
    pad = ' ' * ind
    if k in ('Skip', 'Ret', 'Connect'):
        return k
    if k in ('Dev', 'Ext', 'Call'):
        return '(%s %s)' % (k, coq_str(s[1]))
    if k == 'DevSet':
        return '(DevSet %s)' % ('true' if s[1] else 'false')
    if k in ('Loop', 'WithLock'):
        return '(%s\n%s%s)' % (k, pad, coq_stmt(s[1], ind + 1))
    if k in ('Seq', 'Choice', 'Try', 'IfDev'):
        return '(%s\n%s%s\n%s%s)' % (k, pad, coq_stmt(s[1], ind + 1), pad, coq_stmt(s[2], ind + 1))
    raise SkelError('unknown statement ' + k)


def depth(s):
    return 1 + max([depth(x) for x in s[1:] if isinstance(x, list)] or [0])


def to_coq(sk):
    out = ['(* GENERATED by translate/skel_c15.py from %s - do not edit.' % sk['source'],
           '   Control skeleton of class %s: one entry per method / nested function. *)' % sk['class'],
           'From Coq Require Import List String.', 'From NV Require Import Skel.LockSyntax.',
           'Import ListNotations.', 'Open Scope string_scope.', '']
    for q in sk['order']:
        ident = 'sk_' + q.replace('.', '__')
        out.append('Definition %s : stmt :=\n  %s.\n' % (ident, coq_stmt(sk['functions'][q], 3)))
    out.append('Definition frontend_prog : program :=\n  [ %s ].\n' % ';\n    '.join(
        '(%s, %s)' % (coq_str(q), 'sk_' + q.replace('.', '__')) for q in sk['order']))
    out.append('Definition frontend_entry_names : list string :=\n  [ %s ].\n' % '; '.join(coq_str(q) for q in sk['entry']))
    out.append('Definition frontend_init : string := %s.\n' % coq_str(sk['init']))
    # fuel: enough for the deepest chain of calls (no recursion among frontend methods is accepted by chk anyway)
    fuel = 8 + len(sk['entry']) + sum(depth(sk['functions'][q]) for q in sk['order'])
    out.append('Definition frontend_fuel : nat := %d.\n' % min(fuel, 2000))
    out.append('(* driver call sites: %s *)' % '; '.join('%s:%d %s%s' % (s['function'], s['line'], s['method'],
                                                         '' if s['lexically_locked'] else ' [no enclosing with self.lock in this function]')
                                                         for s in sk['driver_call_sites']))
    return '\n'.join(out) + '\n'


# ---------------------------------------------------------------- driver modules: no concurrency of their own
# The theorems treat a driver call as something that happens in the calling thread between DevBegin and
# DevEnd.  That is only true if the driver modules (everything under src/nfc/clf/ except the frontend) never
# run driver/transport code from a thread, timer, executor, signal handler, exit hook, event loop or
# finaliser of their own.  scan_drivers() extracts the FACTS (imports, suspicious identifiers/constructs with
# their location); the POLICY (which imports are acceptable, that there must be no flag) is
# coq/Skel/DriverPolicy.v and is decided inside Coq (Bridge/C15Drivers.v) on the regenerated facts.
DRIVER_DIR = 'src/nfc/clf'
# identifiers (names or attribute names, anywhere in the code) that create or register asynchronous activity
ASYNC_IDENTS = {
    'Thread', 'Timer', 'start_new_thread', '_thread', 'thread', 'threading', 'ThreadPoolExecutor', 'ProcessPoolExecutor',
    'Executor', 'Process', 'Pool', 'multiprocessing', 'concurrent', 'futures', 'asyncio', 'run_in_executor',
    'call_later', 'call_at', 'call_soon', 'call_soon_threadsafe', 'create_task', 'ensure_future', 'get_event_loop',
    'new_event_loop', 'run_until_complete', 'run_forever', 'signal', 'setitimer', 'alarm', 'set_wakeup_fd', 'atexit',
    'sched', 'scheduler', 'settrace', 'setprofile', 'excepthook', 'weakref', 'finalize', 'gc',
    # asynchronous APIs of the libraries the transports use (libusb1, pyserial, socketserver)
    'getTransfer', 'setCallback', 'submit', 'handleEvents', 'handleEventsTimeout', 'USBTransferHelper', 'USBPoller',
    'USBPollerThread', 'hotplugRegisterCallback', 'setPollFDNotifiers', 'ReaderThread', 'threaded', 'serve_forever',
    'socketserver',
}
DYNAMIC_CODE = {'eval', 'exec', 'compile', '__import__', 'globals', 'vars'}


def scan_driver_module(path, fname):
    tree = ast.parse(open(path).read(), path)
    imports, flags = [], []

    def flag(node, what):
        flags.append((fname, getattr(node, 'lineno', 0), what))

    for node in ast.walk(tree):
        if isinstance(node, ast.Import):
            for a in node.names:
                imports.append((fname, node.lineno, a.name))
        elif isinstance(node, ast.ImportFrom):
            base = ('nfc.clf' if node.level == 1 else 'nfc' if node.level == 2 else '?' * node.level) if node.level else ''
            mod = '.'.join(x for x in (base, node.module or '') if x)
            if node.module is None:
                for a in node.names:             # from . import pn532
                    imports.append((fname, node.lineno, mod + '.' + a.name))
            else:
                imports.append((fname, node.lineno, mod))
        elif isinstance(node, ast.Name):
            if node.id in ASYNC_IDENTS:
                flag(node, 'identifier ' + node.id)
        elif isinstance(node, ast.Attribute):
            if node.attr in ASYNC_IDENTS:
                flag(node, 'attribute ' + (dotted(node) or '?.' + node.attr))
            if node.attr == 'modules' and dotted(node) == 'sys.modules':
                flag(node, 'sys.modules')
        elif isinstance(node, (ast.AsyncFunctionDef, ast.Await, ast.AsyncFor, ast.AsyncWith)):
            flag(node, 'async construct ' + type(node).__name__)
        elif isinstance(node, ast.Call):
            f = node.func
            if isinstance(f, ast.Name) and f.id in DYNAMIC_CODE:
                flag(node, 'dynamic code ' + f.id + '(...)')
            if dotted(f) in ('importlib.import_module', 'import_module'):
                a = node.args[0] if node.args else None
                ok = ((isinstance(a, ast.Constant) and isinstance(a.value, str) and a.value.startswith('nfc.clf.')) or
                      (isinstance(a, ast.BinOp) and isinstance(a.op, ast.Add) and isinstance(a.left, ast.Constant)
                       and a.left.value == 'nfc.clf.'))
                if not ok:
                    flag(node, 'import_module of something else than "nfc.clf." + name')
        elif isinstance(node, ast.FunctionDef) and node.name == '__del__':
            # a finaliser runs in whatever thread drops the last reference; accepted only if all it does is
            # release the handle (self.close() / self.context.exit()), which nobody else can be using then
            for c in ast.walk(node):
                if isinstance(c, ast.Call) and dotted(c.func) not in ('self.close', 'self.context.exit'):
                    flag(c, '__del__ calls ' + (dotted(c.func) or 'something'))
    return imports, flags


def scan_drivers(repo_root):
    d = os.path.join(repo_root, DRIVER_DIR)
    mods = sorted(f for f in os.listdir(d) if f.endswith('.py') and f != '__init__.py')
    if not mods:
        raise SkelError('no driver modules found under ' + DRIVER_DIR)
    for sub in sorted(os.listdir(d)):
        if os.path.isdir(os.path.join(d, sub)) and sub != '__pycache__':
            raise SkelError('unexpected sub-package %s under %s' % (sub, DRIVER_DIR))
    imports, flags = [], []
    for f in mods:
        i, fl = scan_driver_module(os.path.join(d, f), f)
        imports += i
        flags += fl
    return {'modules': mods, 'imports': imports, 'flags': flags}


def drivers_to_coq(sc):
    out = ['(* GENERATED by translate/skel_c15.py (scan_drivers) from %s/*.py - do not edit.' % DRIVER_DIR,
           '   Facts about the driver modules; the policy is Skel/DriverPolicy.v. *)',
           'From Coq Require Import List String.', 'Import ListNotations.', 'Open Scope string_scope.', '',
           'Definition driver_modules : list string :=\n  [ %s ].\n' % '; '.join(coq_str(m) for m in sc['modules']),
           '(* (module, imported module) *)',
           'Definition driver_imports : list (string * string) :=\n  [ %s ].\n' % ';\n    '.join(
               '(%s, %s)' % (coq_str(f), coq_str(m)) for f, _l, m in sc['imports']),
           '(* (module, line, what): identifiers and constructs that create asynchronous activity *)',
           'Definition driver_flags : list (string * string * string) :=\n  [ %s ].\n' % ';\n    '.join(
               '(%s, %s, %s)' % (coq_str(f), coq_str(str(l)), coq_str(w)) for f, l, w in sc['flags'])]
    return '\n'.join(out) + '\n'


def generate_drivers(repo_root):
    return drivers_to_coq(scan_drivers(repo_root))


generate_drivers.SOURCE = DRIVER_DIR + '/*.py'


def generate(repo_root):
    return to_coq(extract(repo_root))


generate.SOURCE = SOURCE

if __name__ == '__main__':
    import sys
    sk = extract(sys.argv[1] if len(sys.argv) > 1 else os.environ.get('NV_REPO', '/repo'))
    if '--coq' in sys.argv:
        print(to_coq(sk))
    else:
        print(json.dumps(sk, indent=1))
