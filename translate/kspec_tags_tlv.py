"""C01-C03 (Type 1 / Type 2 tags) kernels regenerated from src/nfc/tag/tt1.py and tt2.py on every run
-> coq/Gen/TlvK.v

get_lock_byte_range / get_rsvd_byte_range return a slice object and use `2 ** n`; get_capacity counts with a
set difference.  None of that is in the py2coq subset as it stands, so this generator checks the shape of the
functions (fail closed: anything unexpected raises and leaves a Gen file that cannot compile) and hands py2coq

  * for the two range functions, one kernel for each bound of the returned slice: the function body with
    `return slice(A, B)` replaced by `return A` / `return B`, and `2 ** (e & c)` (c a non-negative constant,
    so the exponent is a non-negative int) replaced by the equal `1 << (e & c)`;
  * for get_capacity, the end of the counted range (second argument of range()) and the adjustment
    `capacity -= 4 if capacity > 256 else 2` as a function of the counted number; the counting itself
    (`len(set(range(offset, END)) - skip_bytes)`) is checked to have exactly this shape and is what the model's
    count_free stands for.

coq/Bridge/TlvK.v proves that the generated kernels are the model's lock_byte_range / rsvd_byte_range /
get_capacity.
"""
import ast
import copy
import os
import sys

sys.path.insert(0, os.path.dirname(os.path.abspath(__file__)))
import py2coq  # noqa: E402

I, B = 'int', 'bytes'
Unsupported = py2coq.Unsupported


class Pow2(ast.NodeTransformer):
    """2 ** (e & c)  ->  1 << (e & c)   for a constant c >= 0"""

    def visit_BinOp(self, node):
        self.generic_visit(node)
        if isinstance(node.op, ast.Pow):
            ok = (isinstance(node.left, ast.Constant) and node.left.value == 2 and isinstance(node.right, ast.BinOp) and
                  isinstance(node.right.op, ast.BitAnd) and isinstance(node.right.right, ast.Constant) and
                  isinstance(node.right.right.value, int) and node.right.right.value >= 0)
            if not ok:
                raise Unsupported('power expression of unexpected shape: ' + ast.unparse(node))
            return ast.BinOp(left=ast.Constant(1), op=ast.LShift(), right=node.right)
        return node


def range_kernels(tree, fname, prefix):
    fn = py2coq.find_function(tree, fname)
    ret = fn.body[-1]
    if not (isinstance(ret, ast.Return) and isinstance(ret.value, ast.Call) and isinstance(ret.value.func, ast.Name) and
            ret.value.func.id == 'slice' and len(ret.value.args) == 2 and not ret.value.keywords):
        raise Unsupported('%s does not end in return slice(a, b)' % fname)
    if any(isinstance(n, ast.Return) for s in fn.body[:-1] for n in ast.walk(s)):
        raise Unsupported('%s has more than one return' % fname)
    out = []
    for i, part in enumerate(('from', 'to')):
        f2 = copy.deepcopy(fn)
        f2.body[-1] = ast.Return(value=f2.body[-1].value.args[i])
        f2 = ast.fix_missing_locations(Pow2().visit(f2))
        f2 = ast.parse(ast.unparse(f2)).body[0]
        out.append(py2coq.Fn(f2, {'data': B}, coqname='gen_%s_%s' % (prefix, part)).translate())
    return out


def capacity_kernels(tree, prefix, size_arg):
    fn = py2coq.find_function(tree, 'get_capacity')
    args = [a.arg for a in fn.args.args]
    if args != [size_arg, 'offset', 'skip_bytes']:
        raise Unsupported('get_capacity arguments changed: %s' % args)
    body = [s for s in fn.body if not (isinstance(s, ast.Expr) and isinstance(s.value, ast.Call) and
                                       ast.unparse(s.value.func).startswith('log.'))]
    if len(body) != 3:
        raise Unsupported('get_capacity: expected 3 statements, found %d' % len(body))
    cnt, adj, ret = body
    if not (isinstance(cnt, ast.Assign) and ast.unparse(cnt.targets[0]) == 'capacity'):
        raise Unsupported('get_capacity: first statement is not an assignment to capacity')
    c = cnt.value
    # len(set(range(offset, END)) - skip_bytes)
    ok = (isinstance(c, ast.Call) and ast.unparse(c.func) == 'len' and len(c.args) == 1 and isinstance(c.args[0], ast.BinOp) and
          isinstance(c.args[0].op, ast.Sub) and ast.unparse(c.args[0].right) == 'skip_bytes')
    if ok:
        s = c.args[0].left
        ok = (isinstance(s, ast.Call) and ast.unparse(s.func) == 'set' and len(s.args) == 1 and isinstance(s.args[0], ast.Call) and
              ast.unparse(s.args[0].func) == 'range' and len(s.args[0].args) == 2 and ast.unparse(s.args[0].args[0]) == 'offset')
    if not ok:
        raise Unsupported('get_capacity: counting expression changed: ' + ast.unparse(c))
    end = s.args[0].args[1]
    if not (isinstance(adj, ast.AugAssign) and isinstance(adj.op, ast.Sub) and ast.unparse(adj.target) == 'capacity'):
        raise Unsupported('get_capacity: adjustment statement changed')
    if not (isinstance(ret, ast.Return) and ast.unparse(ret.value) == 'capacity'):
        raise Unsupported('get_capacity: does not return capacity')
    src_end = 'def k(%s):\n    return %s\n' % (size_arg, ast.unparse(end))
    src_adj = 'def k(capacity):\n    capacity -= %s\n    return capacity\n' % ast.unparse(adj.value)
    return [py2coq.Fn(ast.parse(src_end).body[0], {size_arg: I}, coqname='gen_%s_cap_end' % prefix).translate(),
            py2coq.Fn(ast.parse(src_adj).body[0], {'capacity': I}, coqname='gen_%s_cap_adjust' % prefix).translate()]


def generate(repo):
    out = [py2coq.PRELUDE % {'src': 'src/nfc/tag/{tt1,tt2}.py (translate/kspec_tags_tlv.py)'}]
    for prefix, f, size_arg in (('t2', 'src/nfc/tag/tt2.py', 'capacity'), ('t1', 'src/nfc/tag/tt1.py', 'tag_memory_size')):
        tree = ast.parse(open(os.path.join(repo, f)).read())
        out += range_kernels(tree, 'get_lock_byte_range', prefix + '_lock')
        out += range_kernels(tree, 'get_rsvd_byte_range', prefix + '_rsvd')
        out += capacity_kernels(tree, prefix, size_arg)
    return '\n'.join(out)


generate.SOURCE = 'src/nfc/tag/{tt1,tt2}.py'
KERNELS = {'TlvK': generate}


# ---------------------------------------------------------------------------------------------------------
# Type2Tag._format: the control skeleton the model's ph_format / t2_format stands for, with the arithmetic
# expressions as translated kernels (-> coq/Gen/TlvFmtK.v, bridge lemmas in coq/Bridge/TlvFmtK.v)
FORMAT_SKELETON = '''if self.ndef and self.ndef.is_writeable:
    memory = self.ndef._tag_memory
    offset = self.ndef._ndef_tlv_offset
    memory_size = HOLE_SIZE
    skip_bytes = self.ndef._skip_bytes
    memory[HOLE_LEN_ADDR] = 0
    offset += HOLE_TERM_STEP
    while offset in skip_bytes:
        offset += 1
    if HOLE_TERM_GUARD:
        memory[offset] = 254
    if wipe is not None:
        for offset in range(HOLE_WIPE_FROM, memory_size):
            if offset not in skip_bytes:
                memory[offset] = HOLE_WIPE_VALUE
    memory.synchronize()
    return True
return False'''


def format_kernels(tree):
    fn = py2coq.find_function(tree, 'Type2Tag._format')
    if [a.arg for a in fn.args.args] != ['self', 'version', 'wipe']:
        raise Unsupported('_format arguments changed')
    body = [s for s in fn.body if not (isinstance(s, ast.Expr) and isinstance(s.value, ast.Constant))]
    holes = {}

    def hole(name, node):
        holes[name] = copy.deepcopy(node)
        return ast.Name(id='HOLE_' + name, ctx=ast.Load())
    try:
        top = copy.deepcopy(body)
        blk = top[0].body
        blk[2].value = hole('SIZE', blk[2].value)
        blk[4].targets[0].slice = hole('LEN_ADDR', blk[4].targets[0].slice)
        blk[5].value = hole('TERM_STEP', blk[5].value)
        blk[7].test = hole('TERM_GUARD', blk[7].test)
        loop = blk[8].body[0]
        loop.iter.args[0] = hole('WIPE_FROM', loop.iter.args[0])
        loop.body[0].body[0].value = hole('WIPE_VALUE', loop.body[0].body[0].value)
    except (AttributeError, IndexError, TypeError) as e:
        raise Unsupported('_format has not the expected statement structure: %r' % (e,))
    got = '\n'.join(ast.unparse(ast.fix_missing_locations(s)) for s in top)
    if got != FORMAT_SKELETON:
        raise Unsupported('_format control skeleton changed:\n' + got)
    size = ast.unparse(holes['SIZE'])
    if 'memory[14]' not in size:
        raise Unsupported('_format: data area size expression changed: ' + size)
    size = size.replace('memory[14]', 'b14')
    defs = [('gen_t2_fmt_size', 'b14', size), ('gen_t2_fmt_len_addr', 'offset', ast.unparse(holes['LEN_ADDR'])),
            ('gen_t2_fmt_term_from', 'offset', 'offset + ' + ast.unparse(holes['TERM_STEP'])),
            ('gen_t2_fmt_wipe_from', 'offset', ast.unparse(holes['WIPE_FROM'])), ('gen_t2_fmt_wipe_value', 'wipe', ast.unparse(holes['WIPE_VALUE']))]
    out = []
    for name, arg, expr in defs:
        src = 'def k(%s):\n    return %s\n' % (arg, expr)
        out.append(py2coq.Fn(ast.parse(src).body[0], {arg: I}, coqname=name).translate())
    src = 'def k(offset, memory_size):\n    return %s\n' % ast.unparse(holes['TERM_GUARD'])
    out.append(py2coq.Fn(ast.parse(src).body[0], {'offset': I, 'memory_size': I}, coqname='gen_t2_fmt_term_guard').translate())
    return out


def generate_fmt(repo):
    tree = ast.parse(open(os.path.join(repo, 'src/nfc/tag/tt2.py')).read())
    return '\n'.join([py2coq.PRELUDE % {'src': 'src/nfc/tag/tt2.py Type2Tag._format (translate/kspec_tags_tlv.py)'}] + format_kernels(tree))


generate_fmt.SOURCE = 'src/nfc/tag/tt2.py'
KERNELS['TlvFmtK'] = generate_fmt
