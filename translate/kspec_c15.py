"""C15: the control skeleton of nfc.clf.ContactlessFrontend is regenerated on every run by the
custom (non-py2coq) generator translate/skel_c15.py -> coq/Gen/FrontendSkel.v"""
import os
import sys

sys.path.insert(0, os.path.dirname(os.path.abspath(__file__)))
import skel_c15  # noqa: E402

KERNELS = {'FrontendSkel': skel_c15.generate, 'DriverScan': skel_c15.generate_drivers}
