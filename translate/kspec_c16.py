"""C16: the exception-flow skeletons of every tag class under src/nfc/tag/ are regenerated on every run
by the custom (non-py2coq) generator translate/skel_c16.py -> coq/Gen/TagSkel.v"""
import os
import sys

sys.path.insert(0, os.path.dirname(os.path.abspath(__file__)))
import skel_c16  # noqa: E402

KERNELS = {'TagSkel': skel_c16.generate}
