"""Which kernels are regenerated from /repo on every run, and where they go."""
import os
import sys

sys.path.insert(0, os.path.dirname(__file__))
import py2coq  # noqa: E402

REPO = os.environ.get('NV_REPO', '/repo')
I, B, BO = 'int', 'bytes', 'bool'
CRC_CALL = {'calculate_crc': ('gen_calculate_crc', [B, I, I], I)}

KERNELS = {
    # Gen file -> (source, [specs])
    'Crc': ('src/nfc/clf/device.py', [
        dict(name='calculate_crc', args={'data': B, 'size': I, 'reg': I}),
        dict(name='Device.add_crc_a', args={'data': B}, calls=CRC_CALL, coqname='gen_add_crc_a'),
        dict(name='Device.check_crc_a', args={'data': B}, calls=CRC_CALL, coqname='gen_check_crc_a'),
        dict(name='Device.add_crc_b', args={'data': B}, calls=CRC_CALL, coqname='gen_add_crc_b'),
        dict(name='Device.check_crc_b', args={'data': B}, calls=CRC_CALL, coqname='gen_check_crc_b'),
    ]),
}


import glob
import importlib.util
for _f in sorted(glob.glob(os.path.join(os.path.dirname(os.path.abspath(__file__)), 'kspec_*.py'))):
    _sp = importlib.util.spec_from_file_location(os.path.basename(_f)[:-3], _f)
    _m = importlib.util.module_from_spec(_sp)
    _sp.loader.exec_module(_m)
    KERNELS.update(_m.KERNELS)


def generate(name, outdir):
    """(re)write outdir/<name>.v if its content changed; return (ok, message)."""
    os.makedirs(outdir, exist_ok=True)
    path = os.path.join(outdir, name + '.v')
    entry = KERNELS[name]
    try:
        if callable(entry):
            # custom generator (skeleton extractors): gen(repo_root) -> Coq text; must raise on anything
            # it cannot classify (fail closed)
            src = getattr(entry, 'SOURCE', name)
            text = entry(REPO)
        else:
            src, specs = entry
            text = py2coq.translate_file(os.path.join(REPO, src), specs)
    except Exception as e:  # noqa: fail closed on every translator error
        # fail closed: leave a file that cannot compile, so every dependent obligation breaks
        text = '(* translation of %s failed: %s *)\nDefinition translation_failed : False := I.\n' % (src, e)
        old = open(path).read() if os.path.exists(path) else None
        if old != text:
            open(path, 'w').write(text)
        return False, '%s: %s' % (src, e)
    old = open(path).read() if os.path.exists(path) else None
    if old != text:
        open(path, 'w').write(text)
    return True, ''


if __name__ == '__main__':
    out = sys.argv[1]
    names = sys.argv[2:] or list(KERNELS)
    rc = 0
    for n in names:
        ok, msg = generate(n, out)
        if not ok:
            print('TRANSLATION FAILED', n, msg)
            rc = 1
    sys.exit(rc)
