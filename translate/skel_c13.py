"""Skeleton extractor for C13 (exception flow of the contactless drivers).

generate(repo_root) parses the driver modules with `ast` and reduces, for every supported driver,
ContactlessFrontend.exchange and everything it can reach (send_cmd_recv_rsp, send_rsp_recv_cmd,
the _tt1/_tt2/_tt3 special paths, the Chipset methods down to Chipset.command and
transport.read/write, the RC-S380 send_command / Frame, the UDP _send_data / _recv_data) to a
statement of coq/Skel/ExnSyntax.v.  One `program` per driver; method resolution (self.<m>,
self.chipset.<m>, super(..).<m>) is done here along the class hierarchy of that driver.

  raise C(...)                          -> Raise C errno      (errno literal if the first argument is one)
  raise / raise <handler name>          -> Reraise
  try/except/finally                    -> Try / HCons (class pattern incl. subclasses) / Finally
  if <test on handler name>             -> IfErrno           (error.errno == / != / in / not in ...; rcs380 error == "NAME")
  self.transport.read/write, socket ops -> Prim with raise-set {IOError}
  unhexlify(..), <bytes>.decode(codec)  -> Prim with raise-set {binascii.Error} / {UnicodeDecodeError}
  assert                                -> Prim "assert@file:line" with EMPTY raise-set (recorded as an assumption:
                                           asserts are argument preconditions of the driver API)
  calls of translated functions         -> Call
  everything on the PURE lists          -> Skip

Implicit exceptions of operations on HOST DATA are represented conservatively.  The extractor follows
values that derive from a host response (result of transport.read / read_frame / socket.recvfrom,
results of the translated functions that return such data, slices, copies and concatenations of them)
with a small shape analysis (known minimal / maximal length, int-or-sequence for read_register, path
sensitive over the guards it recognises: `if not x`, `if x`, len(x) < <= > >= == != constant,
len(x) against len(self.CONST) / len(*args), `<host number> == len(x) - K`, isinstance(x, int),
and / or / not / conditional expressions, `del x[0:K]`, early raise / return / never-returning callee).
Every constant subscript, tuple unpacking, struct.unpack and iteration on such a value becomes a
Prim "implicit ..." raising IndexError / ValueError / StructError / TypeError UNLESS the shape analysis
proves it safe in every environment; what it cannot prove is listed in the generated file and breaks
the closure obligation.

Numbers.  The timeout argument of ContactlessFrontend.exchange is followed as "None or a number" into the
listen side (send_rsp_recv_cmd documents the default None; send_cmd_recv_rsp documents a float, and a driver
whose listen_* methods all raise UnsupportedTargetError has no listen side - both recorded as assumptions).
Arithmetic, ordering comparisons, numeric %-formatting, str.format with a format specification, int / float /
round / abs / min / max / math.* / time.sleep applied to such a value raise TypeError unless an
`is None` / `is not None` / truth test (also inside and / or / conditional expressions, and as the exit
condition of a while loop without break) excludes None.  time.sleep(x) raises ValueError unless x is provably
non-negative (constants, max/min/abs, sums/products/quotients of such); math.log / log2 / log10 (sqrt) raise
ValueError unless the argument is a positive (non-negative) constant expression.

Not covered: None-ness of other values, division by zero and overflow, dictionary lookups, indices that are not
compile time constants on data that is not host data, the code below transport.read/write.

The extractor FAILS CLOSED: an ast node type, a called name, a method called on a value, an except
clause or an errno test that is not on one of the explicit lists raises SkelError; kernels.py then
writes a Gen file that does not compile and every obligation depending on it breaks.
"""
import ast
import errno as _errno
import hashlib
import os


class SkelError(Exception):
    pass


CLF = 'src/nfc/clf/'
MODULES = ['pn53x', 'pn531', 'pn532', 'pn533', 'rcs956', 'acr122', 'arygon', 'rcs380', 'udp', 'device', '__init__']

# driver -> (module, Device class, Chipset (module, class) or None)
DRIVERS = [
    ('pn531', ('pn531', 'Device'), ('pn531', 'Chipset')),
    ('pn532', ('pn532', 'Device'), ('pn532', 'Chipset')),
    ('pn533', ('pn533', 'Device'), ('pn533', 'Chipset')),
    ('rcs956', ('rcs956', 'Device'), ('rcs956', 'Chipset')),
    ('acr122', ('acr122', 'Device'), ('acr122', 'Chipset')),
    ('arygon_a', ('arygon', 'DeviceA'), ('arygon', 'ChipsetA')),
    ('arygon_b', ('arygon', 'DeviceB'), ('arygon', 'ChipsetB')),
    ('rcs380', ('rcs380', 'Device'), ('rcs380', 'Chipset')),
    ('udp', ('udp', 'Device'), None),
]

# exception classes: name -> (id, parent name)
CLASSES = {
    'IOError': (1, None),
    'TimeoutError': (2, 'CommunicationError'),
    'BrokenLinkError': (3, 'CommunicationError'),
    'TransmissionError': (4, 'CommunicationError'),
    'ProtocolError': (5, 'CommunicationError'),
    'CommunicationError': (6, 'ClfError'),
    'UnsupportedTargetError': (7, 'ClfError'),
    'ClfError': (8, None),
    'ChipsetError': (10, None),            # pn53x.Chipset.Error
    'RcsCommunicationError': (11, None),   # rcs380.CommunicationError
    'RcsStatusError': (12, None),          # rcs380.StatusError
    'ValueError': (20, None),
    'BinasciiError': (21, 'ValueError'),
    'UnicodeDecodeError': (22, 'ValueError'),
    'AssertionError': (23, None),
    'NotImplementedError': (24, None),
    'IndexError': (25, None),
    'TypeError': (26, None),
    'KeyError': (27, None),
    'StructError': (28, None),
}
ALLOWED = ['IOError', 'TimeoutError', 'BrokenLinkError', 'TransmissionError', 'ProtocolError', 'CommunicationError']

# how exception classes are written in the sources, per module
CLASS_SPELLINGS = {
    'IOError': 'IOError', 'OSError': 'IOError', 'socket.error': 'IOError', 'select.error': 'IOError',
    'socket.timeout': 'IOError',
    'nfc.clf.TimeoutError': 'TimeoutError', 'nfc.clf.BrokenLinkError': 'BrokenLinkError',
    'nfc.clf.TransmissionError': 'TransmissionError', 'nfc.clf.ProtocolError': 'ProtocolError',
    'nfc.clf.CommunicationError': 'CommunicationError', 'nfc.clf.UnsupportedTargetError': 'UnsupportedTargetError',
    'nfc.clf.Error': 'ClfError',
    'Chipset.Error': 'ChipsetError',
    'ValueError': 'ValueError', 'AssertionError': 'AssertionError', 'NotImplementedError': 'NotImplementedError',
    'IndexError': 'IndexError', 'TypeError': 'TypeError', 'KeyError': 'KeyError', 'struct.error': 'StructError',
}
MODULE_CLASS_SPELLINGS = {
    'rcs380': {'CommunicationError': 'RcsCommunicationError', 'StatusError': 'RcsStatusError'},
    '__init__': {'TimeoutError': 'TimeoutError', 'BrokenLinkError': 'BrokenLinkError',
                 'TransmissionError': 'TransmissionError', 'ProtocolError': 'ProtocolError',
                 'CommunicationError': 'CommunicationError', 'UnsupportedTargetError': 'UnsupportedTargetError'},
}

# ---------------------------------------------------------------- whitelists
PURE_FUNCS = {'bytearray', 'bytes', 'len', 'int', 'str', 'bool', 'range', 'zip', 'sum', 'min', 'max', 'tuple', 'list',
              'isinstance', 'hexlify', 'memoryview', 'pack', 'unpack', 'reduce', 'chr', 'type', 'float', 'sorted',
              'dict', 'enumerate', 'reversed', 'repr'}
PURE_DOTTED = {'time.time', 'math.ceil', 'math.floor', 'os.strerror', 'struct.pack', 'struct.unpack', 'binascii.hexlify',
               'log.debug', 'log.info', 'log.error', 'log.warning', 'log.log', 'log.exception',
               'self.log.debug', 'self.log.info', 'self.log.error', 'self.log.warning', 'self.log.log',
               'operator.xor'}
# methods of plain data values (bytes, bytearray, str, list, dict)
PURE_METHODS = {'format', 'startswith', 'endswith', 'append', 'extend', 'get', 'index', 'pop', 'join', 'insert',
                'split', 'strip', 'encode', 'items', 'keys', 'values', 'upper', 'lower'}
# receivers of .decode() whose content is ASCII by construction (hex digits / a validated brty string)
PURE_DECODE = {('*', 'hexlify'), ('*', 'binascii.hexlify'), ('udp.Device._send_data', 'data')}
# primitives with a raise-set
PRIM_DOTTED = {
    'self.transport.read': ['IOError'], 'self.transport.write': ['IOError'],
    'self.socket.sendto': ['IOError'], 'self.socket.recvfrom': ['IOError'], 'self.socket.getsockname': ['IOError'],
    'select.select': ['IOError'],
    'unhexlify': ['BinasciiError'],
}
# class-level tables (dicts / byte strings) read through self
SELF_DATA_ATTRS = {'ERR', 'CMD', 'REG', 'REGBYNAME', 'SOF', 'ACK'}
MODULE_NAMES = {'nfc', 'math', 'time', 'os', 'errno', 'log', 'logging', 'struct', 'socket', 'select', 'operator', 'binascii',
                'device', 'sys'}


def cid(name):
    return CLASSES[name][0]


def with_subclasses(name):
    out = [name]
    changed = True
    while changed:
        changed = False
        for n, (_i, p) in CLASSES.items():
            if p in out and n not in out:
                out.append(n)
                changed = True
    return out


# ---------------------------------------------------------------- statement constructors
SKIP = ('Skip',)


def seq(*xs):
    out = None
    for x in reversed([x for x in xs if x != SKIP]):
        out = x if out is None else ('Seq', x, out)
    return out if out is not None else SKIP


def choice(a, b):
    return a if a == b else ('Choice', a, b)


def dotted(node):
    """a.b.c for Name/Attribute chains, else None"""
    parts = []
    while isinstance(node, ast.Attribute):
        parts.append(node.attr)
        node = node.value
    if isinstance(node, ast.Name):
        parts.append(node.id)
        return '.'.join(reversed(parts))
    return None


class Module(object):
    def __init__(self, name, path):
        self.name = name
        self.src = open(path).read()
        self.tree = ast.parse(self.src)
        self.classes = {}
        self.funcs = {}
        self.imports = {}      # local module alias -> module name (from . import x)
        for n in self.tree.body:
            if isinstance(n, ast.ClassDef):
                self.classes[n.name] = n
            elif isinstance(n, ast.FunctionDef):
                self.funcs[n.name] = n
            elif isinstance(n, ast.ImportFrom) and n.level == 1 and n.module is None:
                for a in n.names:
                    self.imports[a.asname or a.name] = a.name


class World(object):
    def __init__(self, repo):
        self.mods = {}
        for m in MODULES:
            self.mods[m] = Module(m, os.path.join(repo, CLF, m + '.py'))

    def cls(self, key):
        m, c = key
        try:
            return self.mods[m].classes[c]
        except KeyError:
            raise SkelError('unknown class %s.%s' % key)

    def base(self, key):
        """single inheritance chain"""
        node = self.cls(key)
        if len(node.bases) != 1:
            raise SkelError('class %s.%s: expected exactly one base' % key)
        b = dotted(node.bases[0])
        if b == 'object':
            return None
        if b in ('nfc.clf.device.Device', 'device.Device'):
            return ('device', 'Device')
        parts = b.split('.')
        if len(parts) == 2 and parts[0] in self.mods[key[0]].imports:
            return (self.mods[key[0]].imports[parts[0]], parts[1])
        if len(parts) == 1 and parts[0] in self.mods[key[0]].classes:
            return (key[0], parts[0])
        raise SkelError('class %s.%s: cannot resolve base %s' % (key[0], key[1], b))

    def mro(self, key):
        out = []
        while key is not None:
            out.append(key)
            key = self.base(key)
        return out

    def method(self, key, name, after=None):
        """(defining class key, FunctionDef) of method `name` for an object of class `key`;
        after=K: start the search behind K in the mro (super(K, self))"""
        chain = self.mro(key)
        if after is not None:
            if after not in chain:
                raise SkelError('super(%s.%s) outside the class chain' % after)
            chain = chain[chain.index(after) + 1:]
        for k in chain:
            for n in self.cls(k).body:
                if isinstance(n, ast.FunctionDef) and n.name == name:
                    return k, n
        return None


# ---------------------------------------------------------------- shape descriptors (implicit-raise analysis)
# What is known about a value that derives from a host response.  None = not tracked (not host data).
#   ('seq', lo, hi)     host derived sequence of lo..hi elements (hi None = unbounded; lo/hi may be the symbol
#                       'N' = number of *args of the enclosing function)
#   ('cseq', lo, hi)    sequence of known shape that is not host data (constants, values built from them)
#   ('tuple', (d, ..))  tuple/list display with known element descriptors
#   ('int',)            a number taken out of a host response
#   ('ios', lo, hi)     an int or a sequence (read_register: int for one register, list otherwise)
#   ('frameobj',)       an rcs380.Frame built from host data (its .data attribute is host data)
TOPSEQ = ('seq', 0, None)
INT = ('int',)
FRAMEOBJ = ('frameobj',)
OPTNUM = ('optnum',)     # None or a number: the timeout argument of the listen side (documented default None)
NONE = ('none',)         # known to be None


def seqlen(d):
    """(lo, hi) of a sequence-like descriptor, or None"""
    if d is None:
        return None
    if d[0] in ('seq', 'cseq', 'ios'):
        return d[1], d[2]
    if d[0] == 'tuple':
        return len(d[1]), len(d[1])
    return None


def jmin(a, b):      # for lower bounds
    if a == b:
        return a
    if 'N' in (a, b):
        return 0
    return min(a, b)


def jmax(a, b):      # for upper bounds (None = infinite)
    if a == b:
        return a
    if a is None or b is None or 'N' in (a, b):
        return None
    return max(a, b)


def join(a, b):
    if a == b:
        return a
    if a is None:
        return b
    if b is None:
        return a
    if a[0] in ('optnum', 'none') or b[0] in ('optnum', 'none'):
        return OPTNUM
    if a[0] == 'frameobj' or b[0] == 'frameobj':
        return TOPSEQ
    la, lb = seqlen(a), seqlen(b)
    if la is not None and lb is not None:
        kind = 'ios' if 'ios' in (a[0], b[0]) else ('seq' if 'seq' in (a[0], b[0]) else
                                                     ('cseq' if a[0] == b[0] == 'cseq' else 'seq'))
        return (kind, jmin(la[0], lb[0]), jmax(la[1], lb[1]))
    if a[0] == 'int' and b[0] == 'int':
        return INT
    other = la or lb
    return ('ios', other[0], other[1])


def inst(d, n):
    """replace the symbol N (number of *args) by the number of arguments at a call site (None = unknown)"""
    if d is None or d[0] not in ('seq', 'cseq', 'ios') or 'N' not in (d[1], d[2]):
        return d
    if d[0] == 'ios' and n == 1 and d[1] == 'N' and d[2] == 'N':
        return INT
    lo = (n if n is not None else 0) if d[1] == 'N' else d[1]
    hi = n if d[2] == 'N' else d[2]
    if d[0] == 'ios' and n is not None and n != 1 and d[1] == 'N' and d[2] == 'N':
        return ('seq', lo, hi)
    return (d[0], lo, hi)


def freeze(env):
    return tuple(sorted(env.items()))


def norm(envs, cap=24):
    seen, out = set(), []
    for e in envs:
        k = freeze(e)
        if k not in seen:
            seen.add(k)
            out.append(e)
    if len(out) > cap:
        keys = set()
        for e in out:
            keys |= set(e)
        j = {}
        for k in keys:
            if all(k in e for e in out):
                d = out[0][k]
                for e in out[1:]:
                    d = join(d, e[k]) if e[k] is not None and d is not None else None
                if d is not None:
                    j[k] = d
        out = [j]
    return out


NEG = {'<': '>=', '<=': '>', '>': '<=', '>=': '<', '==': '!=', '!=': '=='}
FLIP = {'<': '>', '<=': '>=', '>': '<', '>=': '<=', '==': '==', '!=': '!='}
OPS = {ast.Lt: '<', ast.LtE: '<=', ast.Gt: '>', ast.GtE: '>=', ast.Eq: '==', ast.NotEq: '!='}
MUTATORS = {'append', 'extend', 'insert', 'pop', 'remove', 'clear', 'reverse', 'sort'}
SAME_SHAPE_FUNCS = {'bytearray', 'bytes', 'memoryview', 'list', 'tuple', 'reversed', 'sorted'}


class FuncCtx(object):
    def __init__(self, tr, modname, selfkey, defkey, qual, node):
        self.tr, self.modname, self.selfkey, self.defkey, self.qual, self.node = tr, modname, selfkey, defkey, qual, node
        self.handler_names = []          # stack of names bound by enclosing except clauses
        self.nested = {}                 # nested function name -> qualified name
        self.aliases = {}                # local name -> set of self.device method names
        self.callinfo = {}               # id(ast.Call) -> (name, return descriptor, noreturn)
        self.rets = []                   # descriptors of returned values
        self.vararg = node.args.vararg.arg if getattr(node, 'args', None) is not None and node.args.vararg else None


class Translator(object):
    """one driver"""

    def __init__(self, world, driver, devkey, chipkey):
        self.w, self.driver, self.devkey, self.chipkey = world, driver, devkey, chipkey
        self.funcs = {}          # skeleton function name -> stmt (None while being translated)
        self.memo = {}           # (qualified name, argument descriptors) -> [name, return descriptor, noreturn]
        self.assumptions = []
        self.unproven = []       # implicit-raise sites that no recognised guard protects
        self.proven = 0          # ... and the number of those that are protected

    # ---- translation of one function in one calling context
    def analyse(self, qual, modname, selfkey, defkey, node, argdescs=None):
        """returns [skeleton name, return descriptor, noreturn]"""
        argdescs = dict((k, v) for k, v in (argdescs or {}).items() if v is not None)
        key = (qual, freeze(argdescs))
        if key in self.memo:
            return self.memo[key]
        n = sum(1 for k in self.memo if k[0] == qual)
        name = qual if n == 0 else '%s#%d' % (qual, n + 1)
        rec = [name, None, False]     # while in progress (recursion): nothing known about the result
        self.memo[key] = rec
        self.funcs[name] = None
        ctx = FuncCtx(self, modname, selfkey, defkey, name, node)
        skel, _out = self.body(ctx, node.body, [dict(argdescs)])
        self.funcs[name] = skel
        ret = None
        for d in ctx.rets:
            ret = join(ret, d)
        rec[1] = ret
        rec[2] = not self.may_normal(skel) and not self.may_return(skel)
        return rec

    def no_listen_mode(self):
        """every listen_tta/ttb/ttf/dep of the driver ends in `raise nfc.clf.UnsupportedTargetError` without any return"""
        for name in ('listen_tta', 'listen_ttb', 'listen_ttf', 'listen_dep'):
            r = self.w.method(self.devkey, name)
            if r is None or r[0] == ('device', 'Device'):
                return False
            body = r[1].body
            if any(isinstance(n, ast.Return) for n in ast.walk(r[1])):
                return False
            last = body[-1]
            if not (isinstance(last, ast.Raise) and last.exc is not None and
                    dotted(last.exc.func if isinstance(last.exc, ast.Call) else last.exc) == 'nfc.clf.UnsupportedTargetError'):
                return False
        return True

    def method_rec(self, selfkey, defkey, node, argdescs=None):
        return self.analyse('%s.%s.%s' % (defkey[0], defkey[1], node.name), defkey[0], selfkey, defkey, node, argdescs)

    def function_rec(self, modname, node, argdescs=None):
        return self.analyse('%s.%s' % (modname, node.name), modname, None, None, node, argdescs)

    def may_normal(self, s):
        k = s[0]
        if k in ('Skip', 'Prim', 'Loop'):
            return True
        if k in ('Return', 'Break', 'Raise', 'Reraise'):
            return False
        if k == 'Seq':
            return self.may_normal(s[1]) and self.may_normal(s[2])
        if k == 'Choice':
            return self.may_normal(s[1]) or self.may_normal(s[2])
        if k == 'IfErrno':
            return self.may_normal(s[2]) or self.may_normal(s[3])
        if k == 'Try':
            return self.may_normal(s[1]) or any(self.may_normal(h) for _p, h in s[2])
        if k == 'Finally':
            return self.may_normal(s[1]) and self.may_normal(s[2])
        if k == 'Call':
            for rec in self.memo.values():
                if rec[0] == s[1]:
                    return not rec[2]
            return True
        raise SkelError('internal: ' + repr(k))

    def may_return(self, s):
        k = s[0]
        if k in ('Return', 'Break'):
            return True
        if k in ('Skip', 'Prim', 'Raise', 'Reraise', 'Call'):
            return False
        if k == 'Seq':
            return self.may_return(s[1]) or (self.may_normal(s[1]) and self.may_return(s[2]))
        if k == 'Choice':
            return self.may_return(s[1]) or self.may_return(s[2])
        if k == 'Loop':
            return self.may_return(s[1])
        if k == 'IfErrno':
            return self.may_return(s[2]) or self.may_return(s[3])
        if k == 'Try':
            return self.may_return(s[1]) or any(self.may_return(h) for _p, h in s[2])
        if k == 'Finally':
            return self.may_return(s[1]) or self.may_return(s[2])
        raise SkelError('internal: ' + repr(k))

    def run(self):
        fe = self.w.mods['__init__'].classes['ContactlessFrontend']
        ex = [n for n in fe.body if isinstance(n, ast.FunctionDef) and n.name == 'exchange']
        if len(ex) != 1:
            raise SkelError('ContactlessFrontend.exchange not found')
        key = ('__init__', 'ContactlessFrontend')
        # exchange(send_data, timeout): the listen side documents timeout=None (no time limit)
        self.analyse('Frontend.exchange', '__init__', key, key, ex[0], {'timeout': OPTNUM})
        return self.funcs

    # ---- exception class resolution
    def exc_class(self, ctx, node):
        d = dotted(node)
        if d is None:
            raise SkelError('%s:%d: exception class expression not understood' % (ctx.modname, node.lineno))
        local = MODULE_CLASS_SPELLINGS.get(ctx.modname, {})
        if d in local:
            return local[d]
        if d in CLASS_SPELLINGS:
            return CLASS_SPELLINGS[d]
        raise SkelError('%s:%d: unknown exception class %s' % (ctx.modname, node.lineno, d))

    def int_literal(self, node):
        if isinstance(node, ast.Constant) and isinstance(node.value, int) and not isinstance(node.value, bool):
            return node.value
        d = dotted(node)
        if d and d.startswith('errno.') and hasattr(_errno, d[6:]):
            # Linux values; the harness runs on the same platform
            return getattr(_errno, d[6:])
        if isinstance(node, ast.Constant) and isinstance(node.value, bytes) and len(node.value) == 4:
            return int.from_bytes(node.value, 'little')      # rcs380 CommunicationError(b'\0\0\0\0')
        return None

    # ================================================================ shapes of host data
    def class_const_len(self, ctx, attr):
        """length of a class level bytes constant (self.ACK, self.SOF)"""
        if ctx.selfkey is None:
            return None
        for k in self.w.mro(ctx.selfkey):
            for n in self.w.cls(k).body:
                if isinstance(n, ast.Assign) and len(n.targets) == 1 and dotted(n.targets[0]) == attr:
                    v = n.value
                    if isinstance(v, ast.Constant) and isinstance(v.value, (bytes, str)):
                        return len(v.value)
                    if isinstance(v, ast.Call) and dotted(v.func) == 'bytearray.fromhex' and len(v.args) == 1 \
                            and isinstance(v.args[0], ast.Constant) and isinstance(v.args[0].value, str):
                        return len(bytes.fromhex(v.args[0].value))
                    if isinstance(v, ast.Call) and dotted(v.func) in ('bytearray', 'bytes') and len(v.args) == 1 \
                            and isinstance(v.args[0], ast.Constant) and isinstance(v.args[0].value, bytes):
                        return len(v.args[0].value)
                    return None
        return None

    def const_int(self, ctx, e, env):
        """an integer the extractor can evaluate: literal, len(self.CONST), len(<display>), sums; 'N' for len(*args)"""
        if isinstance(e, ast.Constant) and isinstance(e.value, int) and not isinstance(e.value, bool):
            return e.value
        if isinstance(e, ast.UnaryOp) and isinstance(e.op, ast.USub):
            v = self.const_int(ctx, e.operand, env)
            return -v if isinstance(v, int) else None
        if isinstance(e, ast.Call) and dotted(e.func) == 'len' and len(e.args) == 1:
            a = e.args[0]
            if isinstance(a, ast.Name) and ctx.vararg and a.id == ctx.vararg:
                return 'N'
            d = dotted(a)
            if d and d.startswith('self.') and d.count('.') == 1:
                return self.class_const_len(ctx, d[5:])
            sd = self.desc(ctx, a, env)
            ln = seqlen(sd)
            if ln and ln[0] == ln[1] and isinstance(ln[0], int) and sd[0] != 'ios':
                return ln[0]
            return None
        if isinstance(e, ast.BinOp) and isinstance(e.op, (ast.Add, ast.Sub)):
            a, b = self.const_int(ctx, e.left, env), self.const_int(ctx, e.right, env)
            if isinstance(a, int) and isinstance(b, int):
                return a + b if isinstance(e.op, ast.Add) else a - b
        return None

    def tracked_names(self, e, env):
        return any(isinstance(n, ast.Name) and env.get(n.id) is not None for n in ast.walk(e))

    def slice_desc(self, ctx, d, sl, env):
        r = self.slice_desc0(ctx, d, sl, env)
        return ('cseq', r[1], r[2]) if d[0] in ('cseq', 'tuple') else r

    def slice_desc0(self, ctx, d, sl, env):
        ln = seqlen(d)
        if ln is None:
            return TOPSEQ
        lo, hi = ln
        if sl.step is not None:
            st = self.const_int(ctx, sl.step, env)
            if st in (1, -1) and sl.lower is None and sl.upper is None:
                return ('seq', lo, hi)
            return ('seq', 0, hi)
        a = 0 if sl.lower is None else self.const_int(ctx, sl.lower, env)
        b = None if sl.upper is None else self.const_int(ctx, sl.upper, env)
        if sl.upper is not None and b == 'N' and a == 0:
            return ('seq', 'N' if lo == 'N' else 0, 'N')
        if 'N' in (lo, hi):
            lo, hi = (0 if lo == 'N' else lo), (None if hi == 'N' else hi)
        if not isinstance(a, int) or a < 0 or (sl.upper is not None and not isinstance(b, int)):
            return ('seq', 0, hi)
        if b is None:
            return ('seq', max(0, lo - a), None if hi is None else max(0, hi - a))
        if b >= 0:
            return ('seq', max(0, min(lo, b) - a), max(0, (b if hi is None else min(hi, b)) - a))
        return ('seq', max(0, lo + b - a), None if hi is None else max(0, hi + b - a))

    def desc(self, ctx, e, env):
        """descriptor of expression e in environment env (None: not host data / nothing known)"""
        t = type(e)
        if t is ast.Name:
            return env.get(e.id)
        if t is ast.Constant:
            if isinstance(e.value, (bytes, str)):
                return ('cseq', len(e.value), len(e.value))
            return None
        if t in (ast.Tuple, ast.List):
            if any(isinstance(x, ast.Starred) for x in e.elts):
                return TOPSEQ if self.tracked_names(e, env) else None
            return ('tuple', tuple(self.desc(ctx, x, env) for x in e.elts))
        if t is ast.IfExp:
            a = [self.desc(ctx, e.body, en) for en in self.refine(ctx, e.test, [env], True)]
            b = [self.desc(ctx, e.orelse, en) for en in self.refine(ctx, e.test, [env], False)]
            out, first = None, True
            for d in a + b:
                out = d if first else (join(out, d) if (out is not None and d is not None) else (out or d))
                first = False
            return out
        if t is ast.Attribute:
            d = dotted(e)
            if d and d.startswith('self.') and d.count('.') == 1:
                n = self.class_const_len(ctx, d[5:])
                return ('cseq', n, n) if n is not None else None
            base = self.desc(ctx, e.value, env)
            if base == FRAMEOBJ and e.attr == 'data':
                return TOPSEQ
            return None
        if t is ast.Subscript:
            base = self.desc(ctx, e.value, env)
            if base is None:
                return None
            if isinstance(e.slice, ast.Slice):
                if base[0] == 'int':
                    return None
                return self.slice_desc(ctx, base, e.slice, env)
            i = self.const_int(ctx, e.slice, env)
            if base[0] == 'tuple' and isinstance(i, int) and -len(base[1]) <= i < len(base[1]):
                return base[1][i]
            return INT if base[0] in ('seq', 'ios') else None
        if t is ast.BinOp and isinstance(e.op, ast.Add):
            a, b = self.desc(ctx, e.left, env), self.desc(ctx, e.right, env)
            la, lb = seqlen(a), seqlen(b)
            if la is None and lb is None:
                return None
            host = 'seq' if ((a is not None and a[0] in ('seq', 'ios')) or (b is not None and b[0] in ('seq', 'ios'))) else 'cseq'
            if la is not None and lb is not None and 'N' not in la + lb:
                return (host, la[0] + lb[0], None if None in (la[1], lb[1]) else la[1] + lb[1])
            known = la or lb
            return (host, known[0] if isinstance(known[0], int) else 0, None)
        if t is ast.Call:
            f = dotted(e.func)
            if id(e) in ctx.callinfo:
                return ctx.callinfo[id(e)][1]
            if f in ('self.transport.read', 'self.read_frame') or f == 'self.tty.read':
                return TOPSEQ
            if f == 'self.socket.recvfrom':
                return ('tuple', (TOPSEQ, None))
            if f in SAME_SHAPE_FUNCS and len(e.args) == 1:
                d = self.desc(ctx, e.args[0], env)
                if d is None:
                    return None
                ln = seqlen(d)
                if d[0] == 'ios' or ln is None:
                    return TOPSEQ
                host = 'cseq' if (d[0] == 'cseq' or (d[0] == 'tuple' and not any(x is not None for x in d[1]))) else 'seq'
                return (host, ln[0], ln[1])
            if f == 'unhexlify' and e.args:
                return TOPSEQ if self.desc(ctx, e.args[0], env) is not None else None
            if isinstance(e.func, ast.Attribute) and e.func.attr in ('split', 'strip', 'decode', 'upper', 'lower', 'join'):
                if self.desc(ctx, e.func.value, env) is not None or any(self.desc(ctx, a, env) is not None for a in e.args):
                    return TOPSEQ
            return None
        if t in (ast.ListComp, ast.GeneratorExp):
            return TOPSEQ if self.tracked_names(e, env) else None
        return None

    # ---- guards
    def set_len(self, env, name, op, k):
        """environment env refined by len(name) op k; returns None if that is impossible"""
        d = env.get(name)
        if d is None or d[0] not in ('seq', 'cseq', 'ios', 'tuple'):
            return env
        lo, hi = seqlen(d)
        kind = 'cseq' if d[0] == 'tuple' else d[0]
        if k == 'N':
            if op == '>=':
                lo = 'N'
            elif op == '<=':
                hi = 'N'
            elif op == '==':
                lo = hi = 'N'
            else:
                return env
        else:
            if 'N' in (lo, hi):
                if op == '==':
                    lo, hi = k, k
                else:
                    return env
            elif op == '<':
                hi = k - 1 if hi is None else min(hi, k - 1)
            elif op == '<=':
                hi = k if hi is None else min(hi, k)
            elif op == '>':
                lo = max(lo, k + 1)
            elif op == '>=':
                lo = max(lo, k)
            elif op == '==':
                lo, hi = max(lo, k), (k if hi is None else min(hi, k))
            elif op == '!=':
                if lo == hi == k:
                    return None
                return env
            if hi is not None and (hi < 0 or lo > hi):
                return None
        out = dict(env)
        out[name] = (kind, lo, hi)
        return out

    def len_of_name(self, e):
        if isinstance(e, ast.Call) and dotted(e.func) == 'len' and len(e.args) == 1 and isinstance(e.args[0], ast.Name):
            return e.args[0].id
        return None

    def nonneg_host_number(self, e):
        """expressions known to be >= 0: an element of a byte string, unpack()[0] of an unsigned format"""
        if isinstance(e, ast.Subscript) and not isinstance(e.slice, ast.Slice):
            if isinstance(e.value, ast.Call) and dotted(e.value.func) in ('unpack', 'struct.unpack'):
                fmt = e.value.args[0] if e.value.args else None
                return isinstance(fmt, ast.Constant) and isinstance(fmt.value, str) and fmt.value.strip('<>=!@').isupper()
            return isinstance(e.value, ast.Name)
        if isinstance(e, ast.BinOp) and isinstance(e.op, ast.Add):
            return all(self.nonneg_host_number(x) or (isinstance(x, ast.Constant) and isinstance(x.value, int) and x.value >= 0)
                       for x in (e.left, e.right))
        return False

    def refine(self, ctx, test, envs, truth):
        """environments in which `test` evaluates to `truth`"""
        t = type(test)
        if t is ast.UnaryOp and isinstance(test.op, ast.Not):
            return self.refine(ctx, test.operand, envs, not truth)
        if t is ast.BoolOp:
            conj = isinstance(test.op, ast.And)
            if conj == truth:            # all operands `truth`
                for v in test.values:
                    envs = self.refine(ctx, v, envs, truth)
                return envs
            out, cur = [], envs          # first operand that is `truth` decides
            for v in test.values:
                out += self.refine(ctx, v, cur, truth)
                cur = self.refine(ctx, v, cur, not truth)
            return norm(out)
        if t is ast.Name:
            out = []
            for env in envs:
                d = env.get(test.id)
                if d is not None and d[0] in ('optnum', 'none'):
                    if truth and d[0] == 'none':
                        continue                       # None is never true
                    e2 = dict(env)
                    if truth:
                        e2.pop(test.id)                # a number other than zero
                    out.append(e2)
                    continue
                if d is None or d[0] not in ('seq', 'cseq', 'tuple'):
                    out.append(env)
                    continue
                r = self.set_len(env, test.id, '>=' if truth else '==', 1 if truth else 0)
                if r is not None:
                    out.append(r)
            return out
        if t is ast.Compare and len(test.ops) == 1 and isinstance(test.ops[0], (ast.Is, ast.IsNot)) \
                and isinstance(test.left, ast.Name) and isinstance(test.comparators[0], ast.Constant) \
                and test.comparators[0].value is None:
            is_none = isinstance(test.ops[0], ast.Is) == truth
            out = []
            for env in envs:
                d = env.get(test.left.id)
                if d is None or d[0] not in ('optnum', 'none'):
                    if not (is_none and d is None and False):
                        out.append(env)
                    continue
                e2 = dict(env)
                if is_none:
                    e2[test.left.id] = NONE
                else:
                    if d[0] == 'none':
                        continue
                    e2.pop(test.left.id)
                out.append(e2)
            return out
        if t is ast.Compare and len(test.ops) == 1 and type(test.ops[0]) in OPS:
            op = OPS[type(test.ops[0])]
            if not truth:
                op = NEG[op]
            left, right = test.left, test.comparators[0]
            for a, b, o in ((left, right, op), (right, left, FLIP[op])):
                name = self.len_of_name(a)
                if name is not None:
                    out = []
                    for env in envs:
                        k = self.const_int(ctx, b, env)
                        if k is None:
                            # len(v) == K + <host number >= 0>  implies  len(v) >= K
                            if o == '==' and isinstance(b, ast.BinOp) and isinstance(b.op, ast.Add):
                                kk = self.const_int(ctx, b.left, env)
                                if isinstance(kk, int) and self.nonneg_host_number(b.right):
                                    r = self.set_len(env, name, '>=', kk)
                                    if r is not None:
                                        out.append(r)
                                    continue
                            out.append(env)
                            continue
                        r = self.set_len(env, name, o, k)
                        if r is not None:
                            out.append(r)
                    return out
                # <host number >= 0> == len(v) - K   implies   len(v) >= K
                if o == '==' and isinstance(b, ast.BinOp) and isinstance(b.op, ast.Sub) and self.nonneg_host_number(a):
                    name = self.len_of_name(b.left)
                    if name is not None:
                        out = []
                        for env in envs:
                            k = self.const_int(ctx, b.right, env)
                            r = self.set_len(env, name, '>=', k) if isinstance(k, int) else env
                            if r is not None:
                                out.append(r)
                        return out
            return envs
        if t is ast.Call and dotted(test.func) == 'isinstance' and len(test.args) == 2 and isinstance(test.args[0], ast.Name) \
                and dotted(test.args[1]) == 'int':
            name, out = test.args[0].id, []
            for env in envs:
                d = env.get(name)
                if d is None:
                    out.append(env)
                elif d[0] == 'ios':
                    e2 = dict(env)
                    e2[name] = INT if truth else ('seq', d[1], d[2])
                    out.append(e2)
                elif (d[0] == 'int') == truth:
                    out.append(env)
            return out
        return envs

    # ---- implicit raise sites
    def site(self, ctx, node, what, classes, safe):
        """an operation on host data that raises implicitly unless `safe`"""
        if safe:
            self.proven += 1
            return SKIP
        where = '%s:%d' % (ctx.modname, node.lineno)
        msg = '%s.py:%d %s (%s) in %s' % (ctx.modname, node.lineno, what, '/'.join(classes), ctx.qual)
        if msg not in self.unproven:
            self.unproven.append(msg)
        return ('Prim', 'implicit %s@%s' % (what, where), list(classes))

    # ---- numbers: the timeout argument, time.sleep, math.log
    def maybe_none(self, ctx, e, envs):
        for env in envs:
            d = self.desc(ctx, e, env)
            if d is not None and d[0] in ('optnum', 'none'):
                return True
        return False

    def binop_site(self, ctx, e, envs):
        if isinstance(e.op, ast.Mod) and isinstance(e.left, ast.Constant) and isinstance(e.left.value, (str, bytes)):
            # "..." % args : only numeric conversions object to None
            import re as _re
            fmt = e.left.value if isinstance(e.left.value, str) else e.left.value.decode('latin-1')
            convs = [m.group(1) for m in _re.finditer(r'%[#0\- +]*(?:\*|\d+)?(?:\.(?:\*|\d+))?[hlL]?([a-zA-Z%])', fmt) if m.group(1) != '%']
            args = list(e.right.elts) if isinstance(e.right, ast.Tuple) else [e.right]
            bad = len(convs) != len(args) and any(self.maybe_none(ctx, a, envs) for a in args)
            for c, a in zip(convs, args):
                if c in 'diouxXeEfFgGc' and self.maybe_none(ctx, a, envs):
                    bad = True
            if bad:
                return self.site(ctx, e, 'numeric formatting of a value that may be None', ['TypeError'], False)
            return SKIP
        if self.maybe_none(ctx, e.left, envs) or self.maybe_none(ctx, e.right, envs):
            return self.site(ctx, e, 'arithmetic on a value that may be None', ['TypeError'], False)
        return SKIP

    def format_site(self, ctx, e, envs):
        """'...{:.3f}...'.format(args): a format specification applied to None raises TypeError"""
        import string as _string
        recv = e.func.value
        some_none = any(self.maybe_none(ctx, a, envs) for a in e.args) or any(self.maybe_none(ctx, k.value, envs) for k in e.keywords)
        if not some_none:
            return SKIP
        if not (isinstance(recv, ast.Constant) and isinstance(recv.value, str)):
            return self.site(ctx, e, 'format() of a value that may be None with an unknown format', ['TypeError'], False)
        auto = 0
        for _lit, field, spec, _conv in _string.Formatter().parse(recv.value):
            if field is None:
                continue
            name = field.split('.')[0].split('[')[0]
            if name == '':
                idx, auto = auto, auto + 1
            elif name.isdigit():
                idx = int(name)
            else:
                kw = [k.value for k in e.keywords if k.arg == name]
                if kw and spec and self.maybe_none(ctx, kw[0], envs):
                    return self.site(ctx, e, 'format specification applied to a value that may be None', ['TypeError'], False)
                continue
            if any(isinstance(a, ast.Starred) for a in e.args):
                if spec:
                    return self.site(ctx, e, 'format specification applied to a value that may be None', ['TypeError'], False)
                continue
            if idx < len(e.args) and spec and self.maybe_none(ctx, e.args[idx], envs):
                return self.site(ctx, e, 'format specification applied to a value that may be None', ['TypeError'], False)
        return SKIP

    def nonneg(self, ctx, e, env, strict=False):
        """e is provably >= 0 (strict: > 0)"""
        if isinstance(e, ast.Constant) and isinstance(e.value, (int, float)) and not isinstance(e.value, bool):
            return e.value > 0 if strict else e.value >= 0
        if isinstance(e, ast.Call) and dotted(e.func) == 'max' and e.args and not e.keywords:
            return any(self.nonneg(ctx, a, env, strict) for a in e.args)
        if isinstance(e, ast.Call) and dotted(e.func) == 'min' and e.args and not e.keywords:
            return all(self.nonneg(ctx, a, env, strict) for a in e.args)
        if isinstance(e, ast.Call) and dotted(e.func) == 'abs' and not strict:
            return True
        if isinstance(e, ast.BinOp) and isinstance(e.op, (ast.Add, ast.Mult, ast.Div)):
            return self.nonneg(ctx, e.left, env, strict) and self.nonneg(ctx, e.right, env, strict)
        if isinstance(e, ast.IfExp):
            return self.nonneg(ctx, e.body, env, strict) and self.nonneg(ctx, e.orelse, env, strict)
        return False

    def number_call_site(self, ctx, e, d, envs):
        """time.sleep / math.log ... / int, float, round, abs, min, max on a value that may be None"""
        sk = SKIP
        if any(self.maybe_none(ctx, a, envs) for a in e.args):
            sk = self.site(ctx, e, '%s() of a value that may be None' % d, ['TypeError'], False)
        if d == 'time.sleep' and e.args:
            ok = all(self.nonneg(ctx, e.args[0], env) for env in envs) if envs else True
            sk = seq(sk, self.site(ctx, e, 'time.sleep of a length that may be negative', ['ValueError'], ok))
        if d in ('math.log', 'math.log2', 'math.log10', 'math.sqrt') and e.args:
            ok = all(self.nonneg(ctx, e.args[0], env, strict=(d != 'math.sqrt')) for env in envs) if envs else True
            sk = seq(sk, self.site(ctx, e, '%s of a value that may be out of its domain' % d, ['ValueError'], ok))
        return sk

    def subscript_site(self, ctx, e, envs):
        if not envs or isinstance(e.slice, ast.Slice) or not isinstance(e.ctx, ast.Load):
            return SKIP
        ds = [self.desc(ctx, e.value, env) for env in envs]
        ds = [None if (d is not None and d[0] in ('optnum', 'none')) else d for d in ds]
        if all(d is None for d in ds):
            return SKIP
        ok, classes = True, ['IndexError']
        for env, d in zip(envs, ds):
            if d is None:
                continue
            if d[0] in ('int', 'ios', 'frameobj'):
                ok, classes = False, ['IndexError', 'TypeError']
                continue
            i = self.const_int(ctx, e.slice, env)
            lo = seqlen(d)[0]
            if not isinstance(i, int):
                if d[0] == 'seq':
                    ok = False           # host data indexed by something the extractor cannot evaluate
                continue
            if not isinstance(lo, int) or not (lo > i if i >= 0 else lo >= -i):
                ok = False
        return self.site(ctx, e, 'subscript', classes, ok)

    def unpack_site(self, ctx, e, envs):
        """struct.unpack(fmt, <host data>)"""
        import struct as _struct
        if not envs or len(e.args) != 2:
            return SKIP
        ds = [self.desc(ctx, e.args[1], env) for env in envs]
        if all(d is None for d in ds):
            return SKIP
        fmt = e.args[0]
        size = None
        if isinstance(fmt, ast.Constant) and isinstance(fmt.value, str):
            try:
                size = _struct.calcsize(fmt.value)
            except _struct.error:
                size = None
        ok = size is not None and all(d is not None and d[0] in ('seq', 'cseq', 'tuple') and seqlen(d) == (size, size) for d in ds)
        return self.site(ctx, e, 'struct.unpack', ['StructError'], ok)

    def tuple_unpack_site(self, ctx, node, k, ds):
        if all(d is None for d in ds):
            return SKIP
        ok, classes = True, ['ValueError']
        for d in ds:
            if d is None:
                continue
            if d[0] in ('int', 'ios', 'frameobj'):
                ok, classes = False, ['ValueError', 'TypeError']
            elif seqlen(d) != (k, k):
                ok = False
        return self.site(ctx, node, 'tuple unpacking', classes, ok)

    def iter_site(self, ctx, node, it, envs):
        ds = [self.desc(ctx, it, env) for env in envs]
        if any(d is not None and d[0] in ('int', 'ios') for d in ds):
            return self.site(ctx, node, 'iteration', ['TypeError'], False)
        if any(d is not None for d in ds):
            self.proven += 1
        return SKIP

    # ================================================================ expressions: the calls they make, in evaluation order
    def eff(self, ctx, e, envs):
        if e is None:
            return SKIP
        t = type(e)
        if t in (ast.Constant, ast.Name):
            return SKIP
        if t is ast.Attribute:
            return self.eff(ctx, e.value, envs)
        if t is ast.Subscript:
            return seq(self.eff(ctx, e.value, envs), self.eff(ctx, e.slice, envs), self.subscript_site(ctx, e, envs))
        if t is ast.Slice:
            return seq(self.eff(ctx, e.lower, envs), self.eff(ctx, e.upper, envs), self.eff(ctx, e.step, envs))
        if t is ast.BinOp:
            return seq(self.eff(ctx, e.left, envs), self.eff(ctx, e.right, envs), self.binop_site(ctx, e, envs))
        if t is ast.UnaryOp:
            sk = self.eff(ctx, e.operand, envs)
            if isinstance(e.op, (ast.USub, ast.UAdd, ast.Invert)) and self.maybe_none(ctx, e.operand, envs):
                sk = seq(sk, self.site(ctx, e, 'arithmetic on a value that may be None', ['TypeError'], False))
            return sk
        if t is ast.Compare:
            sk = seq(self.eff(ctx, e.left, envs), *[self.eff(ctx, c, envs) for c in e.comparators])
            operands = [e.left] + list(e.comparators)
            for i, op in enumerate(e.ops):
                if isinstance(op, (ast.Lt, ast.LtE, ast.Gt, ast.GtE)) and \
                        (self.maybe_none(ctx, operands[i], envs) or self.maybe_none(ctx, operands[i + 1], envs)):
                    sk = seq(sk, self.site(ctx, e, 'ordering comparison with a value that may be None', ['TypeError'], False))
            return sk
        if t is ast.BoolOp:
            conj = isinstance(e.op, ast.And)
            parts, cur = [], envs
            for v in e.values:
                parts.append(self.eff(ctx, v, cur))
                cur = self.refine(ctx, v, cur, conj)
            out = parts[-1]
            for p in reversed(parts[:-1]):
                out = seq(p, choice(SKIP, out))
            return out
        if t is ast.IfExp:
            return seq(self.eff(ctx, e.test, envs),
                       choice(self.eff(ctx, e.body, self.refine(ctx, e.test, envs, True)),
                              self.eff(ctx, e.orelse, self.refine(ctx, e.test, envs, False))))
        if t in (ast.Tuple, ast.List, ast.Set):
            return seq(*[self.eff(ctx, x, envs) for x in e.elts])
        if t is ast.Dict:
            return seq(*[seq(self.eff(ctx, k, envs), self.eff(ctx, v, envs)) for k, v in zip(e.keys, e.values)])
        if t is ast.Starred:
            return self.eff(ctx, e.value, envs)
        if t is ast.JoinedStr:
            return seq(*[self.eff(ctx, v, envs) for v in e.values])
        if t is ast.FormattedValue:
            return self.eff(ctx, e.value, envs)
        if t in (ast.ListComp, ast.GeneratorExp, ast.SetComp):
            # loop variables are elements, not host sequences
            bound = set()
            for g in e.generators:
                bound |= {n.id for n in ast.walk(g.target) if isinstance(n, ast.Name)}
            inner_envs = [dict((k, v) for k, v in env.items() if k not in bound) for env in envs]
            inner = self.eff(ctx, e.elt, inner_envs)
            for g in reversed(e.generators):
                inner = seq(self.eff(ctx, g.iter, envs), self.iter_site(ctx, g.iter, g.iter, envs),
                            ('Loop', seq(*([self.eff(ctx, c, inner_envs) for c in g.ifs] + [inner]))))
            return inner
        if t is ast.Call:
            return self.call(ctx, e, envs)
        raise SkelError('%s:%d: expression %s not supported' % (ctx.modname, getattr(e, 'lineno', 0), t.__name__))

    def args_eff(self, ctx, e, envs):
        return seq(*([self.eff(ctx, a, envs) for a in e.args] + [self.eff(ctx, k.value, envs) for k in e.keywords]))

    def arg_descs(self, ctx, e, node, envs, method=True):
        """descriptors of the arguments of call e for the parameters of FunctionDef node, joined over envs;
        and the number of values that go to *args (None if unknown)"""
        a = node.args
        params = [p.arg for p in a.posonlyargs + a.args]
        static = any(dotted(d) == 'staticmethod' for d in node.decorator_list)
        if method and not static and params:
            params = params[1:]

        def jd(x):
            out, first = None, True
            for env in envs:
                d = self.desc(ctx, x, env)
                if d is not None and d[0] in ('optnum', 'none'):
                    return OPTNUM
                out = d if first else (join(out, d) if (out is not None and d is not None) else None)
                first = False
            return out
        descs, nvar, i = {}, 0, 0
        for x in e.args:
            if isinstance(x, ast.Starred):
                d = jd(x.value)
                ln = seqlen(d) if d is not None and d[0] in ('seq', 'cseq', 'tuple') else None
                if i >= len(params) and ln and ln[0] == ln[1] and isinstance(ln[0], int) and nvar is not None:
                    nvar += ln[0]
                else:
                    nvar = None
                i = len(params)
                continue
            if i < len(params):
                descs[params[i]] = jd(x)
                i += 1
            elif nvar is not None:
                nvar += 1
        for k in e.keywords:
            if k.arg is None:
                return {}, None
            descs[k.arg] = jd(k.value)
        return descs, (nvar if a.vararg else None)

    def resolved(self, ctx, e, envs, rec_fn, node, method=True):
        descs, nvar = self.arg_descs(ctx, e, node, envs, method)
        rec = rec_fn(descs)
        ctx.callinfo[id(e)] = (rec[0], inst(rec[1], nvar), rec[2])
        return ('Call', rec[0])

    def call(self, ctx, e, envs):
        f = e.func
        d = dotted(f)
        args = self.args_eff(ctx, e, envs)
        where = '%s:%d' % (ctx.modname, e.lineno)
        # super(Cls, self).m(...)
        if isinstance(f, ast.Attribute) and isinstance(f.value, ast.Call) and dotted(f.value.func) == 'super':
            sargs = f.value.args
            if len(sargs) != 2 or dotted(sargs[1]) != 'self' or dotted(sargs[0]) != ctx.defkey[1]:
                raise SkelError(where + ': unusual super() call')
            r = self.w.method(ctx.selfkey, f.attr, after=ctx.defkey)
            if r is None:
                raise SkelError(where + ': super().%s not found' % f.attr)
            return seq(args, self.resolved(ctx, e, envs, lambda ds: self.method_rec(ctx.selfkey, r[0], r[1], ds), r[1]))
        # method call on the result of another call / subscript: x(...).m(...), x[..].m(...)
        if d is None:
            if isinstance(f, ast.Attribute):
                recv = self.eff(ctx, f.value, envs)
                if f.attr == 'decode':
                    rd = dotted(f.value.func) if isinstance(f.value, ast.Call) else None
                    if ('*', rd) in PURE_DECODE:
                        return seq(recv, args)
                    return seq(recv, args, ('Prim', 'bytes.decode@' + where, ['UnicodeDecodeError']))
                if f.attr == 'format':
                    return seq(recv, args, self.format_site(ctx, e, envs))
                if f.attr in PURE_METHODS:
                    return seq(recv, args)
            raise SkelError(where + ': call through an expression that is not understood')
        # nested function or alias of a device method
        if d in ctx.nested:
            return seq(args, ('Call', ctx.nested[d]))
        if d in ctx.aliases:
            out = None
            for m in sorted(ctx.aliases[d]):
                r = self.w.method(self.devkey, m)
                if r is None:
                    raise SkelError(where + ': device method %s not found' % m)
                descs, _nv = self.arg_descs(ctx, e, r[1], envs)
                if m == 'send_rsp_recv_cmd' and self.no_listen_mode():
                    # no LocalTarget can exist on this driver: every listen_xxx() raises UnsupportedTargetError
                    descs = dict((k, v) for k, v in descs.items() if v is None or v[0] not in ('optnum', 'none'))
                    note = '%s: all listen_* methods raise UnsupportedTargetError (checked), so send_rsp_recv_cmd is ' \
                           'never entered with the listen-side default timeout=None' % self.driver
                    if note not in self.assumptions:
                        self.assumptions.append(note)
                if m == 'send_cmd_recv_rsp':
                    # documented: "timeout (float): the maximum number of seconds"; None is not a value of that argument
                    descs = dict((k, v) for k, v in descs.items() if v is None or v[0] not in ('optnum', 'none'))
                    note = 'send_cmd_recv_rsp is called with a number as timeout (documented type float), never None'
                    if note not in self.assumptions:
                        self.assumptions.append(note)
                c = ('Call', self.method_rec(self.devkey, r[0], r[1], descs)[0])
                out = c if out is None else choice(out, c)
            return seq(args, out)
        if d in PRIM_DOTTED:
            return seq(args, ('Prim', d + '@' + where, PRIM_DOTTED[d]))
        if d in ('unpack', 'struct.unpack'):
            return seq(args, self.unpack_site(ctx, e, envs))
        if d in ('time.sleep', 'math.log', 'math.log2', 'math.log10', 'math.sqrt', 'int', 'float', 'round', 'abs', 'min', 'max',
                 'math.ceil', 'math.floor'):
            return seq(args, self.number_call_site(ctx, e, d, envs))
        if d in PURE_DOTTED or d in PURE_FUNCS:
            return args
        parts = d.split('.')
        if self.is_exc_class(ctx, f):
            return seq(args, self.exc_init(ctx, e, envs))
        mod = self.w.mods[ctx.modname]
        if len(parts) == 1:
            if d in mod.funcs:
                node = mod.funcs[d]
                return seq(args, self.resolved(ctx, e, envs, lambda ds: self.function_rec(ctx.modname, node, ds), node, False))
            if d in mod.classes:
                init = self.w.method((ctx.modname, d), '__init__')
                if init is None:
                    return args
                c = self.resolved(ctx, e, envs, lambda ds: self.method_rec((ctx.modname, d), init[0], init[1], ds), init[1])
                info = ctx.callinfo[id(e)]
                ctx.callinfo[id(e)] = (info[0], FRAMEOBJ if (ctx.modname, d) == ('rcs380', 'Frame') else None, info[2])
                return seq(args, c)
            raise SkelError(where + ': call of unknown name %s' % d)
        if parts[0] == 'self':
            if len(parts) == 2:
                r = self.w.method(ctx.selfkey, parts[1])
                if r is None:
                    raise SkelError(where + ': method self.%s not found' % parts[1])
                return seq(args, self.resolved(ctx, e, envs, lambda ds: self.method_rec(ctx.selfkey, r[0], r[1], ds), r[1]))
            if len(parts) == 3 and parts[1] == 'chipset':
                if self.chipkey is None:
                    raise SkelError(where + ': driver without chipset calls self.chipset')
                r = self.w.method(self.chipkey, parts[2])
                if r is None:
                    raise SkelError(where + ': chipset method %s not found' % parts[2])
                return seq(args, self.resolved(ctx, e, envs, lambda ds: self.method_rec(self.chipkey, r[0], r[1], ds), r[1]))
            if len(parts) == 3 and parts[1] == 'device' and ctx.qual == 'Frontend.exchange':
                r = self.w.method(self.devkey, parts[2])
                if r is None:
                    raise SkelError(where + ': device method %s not found' % parts[2])
                return seq(args, self.resolved(ctx, e, envs, lambda ds: self.method_rec(self.devkey, r[0], r[1], ds), r[1]))
            if len(parts) == 3 and parts[1] in SELF_DATA_ATTRS and parts[2] in PURE_METHODS:
                return args
            raise SkelError(where + ': call %s not classified' % d)
        # method of a plain value held in a local variable / attribute
        if parts[0] not in MODULE_NAMES and len(parts) >= 2:
            m = parts[-1]
            if m == 'decode':
                if (ctx.qual.split('#')[0], '.'.join(parts[:-1])) in PURE_DECODE:
                    return args
                return seq(args, ('Prim', 'bytes.decode@' + where, ['UnicodeDecodeError']))
            if m == 'format':
                return seq(args, self.format_site(ctx, e, envs))
            if m in PURE_METHODS:
                return args
        raise SkelError(where + ': call %s not classified' % d)

    def exc_init(self, ctx, e, envs):
        """constructor of an exception class defined in the module (rcs380.CommunicationError unpacks its argument)"""
        d = dotted(e.func)
        mod = self.w.mods[ctx.modname]
        if d in mod.classes:
            key = (ctx.modname, d)
            for n in mod.classes[d].body:
                if isinstance(n, ast.FunctionDef) and n.name == '__init__':
                    return self.resolved(ctx, e, envs, lambda ds: self.analyse('%s.%s.__init__' % key, ctx.modname, None, key, n, ds), n)
        return SKIP

    def is_exc_class(self, ctx, node):
        d = dotted(node)
        if d is None:
            return False
        return d in MODULE_CLASS_SPELLINGS.get(ctx.modname, {}) or d in CLASS_SPELLINGS

    # ---- errno tests inside handlers
    def mentions(self, node, name):
        return any(isinstance(n, ast.Name) and n.id == name for n in ast.walk(node))

    def errno_test(self, ctx, test, name):
        """returns (etest, negated) for a test on the handled exception `name`"""
        where = '%s:%d' % (ctx.modname, test.lineno)
        neg = False
        while isinstance(test, ast.UnaryOp) and isinstance(test.op, ast.Not):
            neg = not neg
            test = test.operand
        if not (isinstance(test, ast.Compare) and len(test.ops) == 1):
            raise SkelError(where + ': test on the handled exception not understood')
        left, op, right = test.left, test.ops[0], test.comparators[0]
        if dotted(left) == name + '.errno':
            if isinstance(op, (ast.Eq, ast.NotEq)):
                v = self.int_literal(right)
                if v is None:
                    raise SkelError(where + ': errno compared with a non-literal')
                return ('EIn', [v]), neg ^ isinstance(op, ast.NotEq)
            if isinstance(op, (ast.In, ast.NotIn)) and isinstance(right, (ast.Tuple, ast.List)):
                vs = [self.int_literal(x) for x in right.elts]
                if None in vs:
                    raise SkelError(where + ': errno compared with a non-literal')
                return ('EIn', vs), neg ^ isinstance(op, ast.NotIn)
        if dotted(left) == name and isinstance(op, (ast.Eq, ast.NotEq)) and isinstance(right, ast.Constant) \
                and isinstance(right.value, str) and ctx.modname == 'rcs380':
            table = self.rcs380_str2err()
            if right.value not in table:
                raise SkelError(where + ': unknown RC-S380 error name %s' % right.value)
            if table[right.value] == 0:
                raise SkelError(where + ': comparison with NO_ERROR not supported')
            return ('EMask', table[right.value]), neg ^ isinstance(op, ast.NotEq)
        raise SkelError(where + ': test on the handled exception not understood')

    def rcs380_str2err(self):
        cls = self.w.mods['rcs380'].classes['CommunicationError']
        for n in cls.body:
            if isinstance(n, ast.Assign) and dotted(n.targets[0]) == 'err2str' and isinstance(n.value, ast.Dict):
                return {v.value: k.value for k, v in zip(n.value.keys, n.value.values)}
        raise SkelError('rcs380.CommunicationError.err2str not found')

    # ================================================================ statements
    def assigned_names(self, stmts):
        """names whose value or length may change inside the statements"""
        out = set()
        for s in ast.walk(ast.Module(body=list(stmts), type_ignores=[])):
            if isinstance(s, (ast.Assign, ast.AugAssign, ast.AnnAssign, ast.For, ast.Delete, ast.With)):
                tg = s.targets if isinstance(s, (ast.Assign, ast.Delete)) else \
                    ([s.target] if not isinstance(s, ast.With) else [i.optional_vars for i in s.items if i.optional_vars])
                for x in tg:
                    for n in ast.walk(x):
                        if isinstance(n, ast.Name):
                            out.add(n.id)
            if isinstance(s, ast.Call) and isinstance(s.func, ast.Attribute) and s.func.attr in MUTATORS \
                    and isinstance(s.func.value, ast.Name):
                out.add(s.func.value.id)
            if isinstance(s, ast.ExceptHandler) and s.name:
                out.add(s.name)
        return out

    def has_break(self, stmts):
        """a break that leaves the loop whose body is stmts"""
        for x in stmts:
            if isinstance(x, ast.Break):
                return True
            if isinstance(x, (ast.For, ast.While, ast.FunctionDef)):
                if self.has_break(x.orelse if not isinstance(x, ast.FunctionDef) else []):
                    return True
                continue
            for field in ('body', 'orelse', 'finalbody'):
                if self.has_break(getattr(x, field, []) or []):
                    return True
            for h in getattr(x, 'handlers', []) or []:
                if self.has_break(h.body):
                    return True
        return False

    def widen(self, envs, names):
        out = []
        for env in envs:
            e2 = {}
            for k, v in env.items():
                if k in names:
                    if v is not None and v[0] in ('cseq', 'tuple'):
                        e2[k] = ('cseq', 0, None)
                    elif v is not None and v[0] == 'seq':
                        e2[k] = ('seq', 0, None)
                    elif v is not None and v[0] == 'ios':
                        e2[k] = ('ios', 0, None)
                    elif v is not None and v[0] in ('optnum', 'none'):
                        e2[k] = OPTNUM
                    elif v is not None:
                        e2[k] = TOPSEQ
                else:
                    e2[k] = v
            out.append(e2)
        return norm(out)

    def body(self, ctx, stmts, envs):
        # nested function definitions and aliases first
        for s in stmts:
            if isinstance(s, ast.FunctionDef):
                q = ctx.qual + '.<locals>.' + s.name
                ctx.nested[s.name] = q
                if q not in self.funcs:
                    self.funcs[q] = None
                    sub = FuncCtx(self, ctx.modname, ctx.selfkey, ctx.defkey, q, s)
                    sub.nested = dict(ctx.nested)
                    self.funcs[q] = self.body(sub, s.body, [{}])[0]
        for s in ast.walk(ast.Module(body=list(stmts), type_ignores=[])):
            if isinstance(s, ast.Assign) and len(s.targets) == 1 and isinstance(s.targets[0], ast.Name):
                d = dotted(s.value)
                if d and d.startswith('self.device.') and d.count('.') == 2:
                    ctx.aliases.setdefault(s.targets[0].id, set()).add(d.split('.')[2])
        return self.body2(ctx, stmts, envs)

    def body2(self, ctx, stmts, envs):
        out = []
        for s in stmts or []:
            sk, envs = self.stmt(ctx, s, envs)
            out.append(sk)
        return seq(*out), envs

    def assign(self, ctx, node, target, value_descs, envs):
        """bind target in every environment; returns (skeleton of implicit sites, envs)"""
        if isinstance(target, ast.Name):
            out = []
            for env, d in zip(envs, value_descs):
                e2 = dict(env)
                if d is None:
                    e2.pop(target.id, None)
                else:
                    e2[target.id] = d
                out.append(e2)
            return SKIP, out
        if isinstance(target, (ast.Tuple, ast.List)):
            if any(isinstance(x, ast.Starred) for x in target.elts):
                sk = self.site(ctx, node, 'starred unpacking', ['ValueError'], all(d is None for d in value_descs))
                names = {n.id for n in ast.walk(target) if isinstance(n, ast.Name)}
                return sk, [dict((k, v) for k, v in env.items() if k not in names) for env in envs]
            k = len(target.elts)
            sk = self.tuple_unpack_site(ctx, node, k, value_descs)
            for i, x in enumerate(target.elts):
                ds = [(d[1][i] if (d is not None and d[0] == 'tuple' and len(d[1]) == k) else None) for d in value_descs]
                s2, envs = self.assign(ctx, node, x, ds, envs)
                sk = seq(sk, s2)
            return sk, envs
        # attribute / subscript stores: nothing tracked
        return SKIP, envs

    def stmt(self, ctx, s, envs):
        t = type(s)
        where = '%s:%d' % (ctx.modname, s.lineno)
        if t is ast.FunctionDef:
            return SKIP, envs
        if t is ast.Expr:
            sk = self.eff(ctx, s.value, envs)
            v = s.value
            if isinstance(v, ast.Call):
                info = ctx.callinfo.get(id(v))
                if info is not None and info[2]:
                    return sk, []                      # the callee never returns (it always raises)
                if isinstance(v.func, ast.Attribute) and v.func.attr in MUTATORS and isinstance(v.func.value, ast.Name):
                    envs = self.widen(envs, {v.func.value.id})
            return sk, envs
        if t is ast.Assign:
            if len(s.targets) == 1 and isinstance(s.targets[0], ast.Name) and s.targets[0].id in ctx.aliases \
                    and (dotted(s.value) or '').startswith('self.device.'):
                return SKIP, envs
            sk = self.eff(ctx, s.value, envs)
            ds = [self.desc(ctx, s.value, env) for env in envs]
            for tg in s.targets:
                sk = seq(sk, self.eff(ctx, tg, envs))
                s2, envs = self.assign(ctx, s, tg, ds, envs)
                sk = seq(sk, s2)
            return sk, norm(envs)
        if t is ast.AugAssign:
            sk = seq(self.eff(ctx, s.value, envs), self.eff(ctx, s.target, envs))
            names = {n.id for n in ast.walk(s.target) if isinstance(n, ast.Name)} if isinstance(s.target, ast.Name) else set()
            return sk, self.widen(envs, names)
        if t is ast.Delete:
            out = envs
            for tg in s.targets:
                if isinstance(tg, ast.Subscript) and isinstance(tg.value, ast.Name) and isinstance(tg.slice, ast.Slice):
                    name, new = tg.value.id, []
                    for env in out:
                        d = env.get(name)
                        if d is None:
                            new.append(env)
                            continue
                        a = 0 if tg.slice.lower is None else self.const_int(ctx, tg.slice.lower, env)
                        b = None if tg.slice.upper is None else self.const_int(ctx, tg.slice.upper, env)
                        ln = seqlen(d)
                        e2 = dict(env)
                        kind = d[0] if d[0] in ('seq', 'cseq') else 'seq'
                        if ln and a == 0 and isinstance(b, int) and b >= 0 and tg.slice.step is None and 'N' not in ln:
                            e2[name] = (kind, max(0, ln[0] - b), None if ln[1] is None else max(0, ln[1] - b))
                        else:
                            e2[name] = (kind, 0, ln[1] if (ln and ln[1] != 'N') else None)
                        new.append(e2)
                    out = norm(new)
                else:
                    out = self.widen(out, {n.id for n in ast.walk(tg) if isinstance(n, ast.Name)})
            return SKIP, out
        if t in (ast.Pass, ast.Global, ast.Nonlocal):
            return SKIP, envs
        if t is ast.Return:
            sk = self.eff(ctx, s.value, envs)
            for env in envs:
                ctx.rets.append(self.desc(ctx, s.value, env) if s.value is not None else None)
            return seq(sk, ('Return',)), []
        if t in (ast.Break, ast.Continue):
            return ('Break',), []
        if t is ast.Assert:
            self.assumptions.append('assert at %s.py:%d holds (argument precondition)' % (ctx.modname, s.lineno))
            sk = seq(self.eff(ctx, s.test, envs), ('Prim', 'assert@' + where, []))
            return sk, self.refine(ctx, s.test, envs, True)
        if t is ast.If:
            if ctx.handler_names and self.mentions(s.test, ctx.handler_names[-1]):
                et, neg = self.errno_test(ctx, s.test, ctx.handler_names[-1])
                a, ea = self.body2(ctx, s.body, envs)
                b, eb = self.body2(ctx, s.orelse, envs)
                return (('IfErrno', et, b, a) if neg else ('IfErrno', et, a, b)), norm(ea + eb)
            for nm in ctx.handler_names[:-1]:
                if self.mentions(s.test, nm):
                    raise SkelError(where + ': test on an outer handled exception')
            tsk = self.eff(ctx, s.test, envs)
            a, ea = self.body2(ctx, s.body, self.refine(ctx, s.test, envs, True))
            b, eb = self.body2(ctx, s.orelse, self.refine(ctx, s.test, envs, False))
            return seq(tsk, choice(a, b)), norm(ea + eb)
        if t is ast.While:
            names = self.assigned_names(s.body)
            entry = self.widen(envs, names)
            tsk = self.eff(ctx, s.test, entry)
            b, eb = self.body2(ctx, s.body, self.refine(ctx, s.test, entry, True))
            after = norm(entry + self.widen(eb, names))
            if not self.has_break(s.body):
                after = self.refine(ctx, s.test, after, False)     # left only when the test fails
            o, eo = self.body2(ctx, s.orelse, after)
            return seq(('Loop', seq(tsk, b)), tsk, o), (eo if s.orelse else after)
        if t is ast.For:
            names = self.assigned_names(s.body) | {n.id for n in ast.walk(s.target) if isinstance(n, ast.Name)}
            isk = seq(self.eff(ctx, s.iter, envs), self.iter_site(ctx, s.iter, s.iter, envs))
            entry = self.widen(envs, names)
            inner = [dict((k, v) for k, v in env.items() if k not in
                          {n.id for n in ast.walk(s.target) if isinstance(n, ast.Name)}) for env in entry]
            b, eb = self.body2(ctx, s.body, inner)
            after = norm(entry + self.widen(eb, names))
            o, eo = self.body2(ctx, s.orelse, after)
            return seq(isk, ('Loop', b), o), (eo if s.orelse else after)
        if t is ast.With:
            if len(s.items) == 1 and dotted(s.items[0].context_expr) == 'self.lock' and s.items[0].optional_vars is None:
                return self.body2(ctx, s.body, envs)
            raise SkelError(where + ': with-statement not supported')
        if t is ast.Raise:
            return self.raise_(ctx, s, envs), []
        if t is ast.Try:
            return self.try_(ctx, s, envs)
        raise SkelError(where + ': statement %s not supported' % t.__name__)

    def raise_(self, ctx, s, envs):
        where = '%s:%d' % (ctx.modname, s.lineno)
        if s.cause is not None:
            raise SkelError(where + ': raise ... from not supported')
        if s.exc is None:
            if not ctx.handler_names:
                raise SkelError(where + ': bare raise outside a handler')
            return ('Reraise',)
        if isinstance(s.exc, ast.Name) and ctx.handler_names and s.exc.id == ctx.handler_names[-1]:
            return ('Reraise',)
        if isinstance(s.exc, ast.Call) and self.is_exc_class(ctx, s.exc.func):
            c = self.exc_class(ctx, s.exc.func)
            no = self.int_literal(s.exc.args[0]) if s.exc.args else None
            if c in ('ChipsetError', 'RcsCommunicationError', 'RcsStatusError', 'IOError'):
                lit = no
            else:
                lit = 0          # these classes carry no errno
            return seq(self.args_eff(ctx, s.exc, envs), self.exc_init(ctx, s.exc, envs), ('Raise', c, lit))
        if self.is_exc_class(ctx, s.exc):
            c = self.exc_class(ctx, s.exc)
            return ('Raise', c, 0 if c not in ('ChipsetError', 'RcsCommunicationError', 'RcsStatusError', 'IOError') else None)
        raise SkelError(where + ': raise of something that is not a known exception class')

    def try_(self, ctx, s, envs):
        body, ebody = self.body2(ctx, s.body, envs)
        names = self.assigned_names(s.body)
        hentry = self.widen(envs, names)
        hs, hout = [], []
        for h in s.handlers:
            if h.type is None:
                pat = sorted(CLASSES)
            else:
                types = h.type.elts if isinstance(h.type, ast.Tuple) else [h.type]
                pat = []
                for ty in types:
                    d = dotted(ty)
                    if d in ('Exception', 'BaseException'):
                        pat += sorted(CLASSES)
                    else:
                        pat += with_subclasses(self.exc_class(ctx, ty))
            ctx.handler_names.append(h.name or '<anonymous handler>')
            try:
                hb, eh = self.body2(ctx, h.body, hentry)
            finally:
                ctx.handler_names.pop()
            hs.append((pat, hb))
            hout += eh
        out = ('Try', body, hs) if hs else body
        after = norm(ebody + hout)
        if s.orelse:
            # else-clause: runs after the body completed normally; sequencing it after the whole
            # Try adds behaviours (it would also run after a handler that falls through) - sound for escapes
            o, eo = self.body2(ctx, s.orelse, norm(ebody + hout))
            out = seq(out, o)
            after = eo
        if s.finalbody:
            allnames = names | self.assigned_names(s.orelse) | self.assigned_names([x for h in s.handlers for x in h.body])
            f, ef = self.body2(ctx, s.finalbody, norm(self.widen(envs, allnames) + after))
            out = ('Finally', out, f)
            after = self.widen(after, self.assigned_names(s.finalbody)) if after else []
        return out, after


# ---------------------------------------------------------------- Coq output
def coq_string(s):
    return '"' + s.replace('"', '""') + '"'


def coq_z(n):
    return '(%d)' % n if n < 0 else str(n)


def coq_stmt(s, ind=0):
    k = s[0]
    if k in ('Skip', 'Return', 'Break', 'Reraise'):
        return k
    if k in ('Seq', 'Choice'):
        return '(%s %s\n%s%s)' % (k, coq_stmt(s[1], ind + 1), ' ' * (ind + 1), coq_stmt(s[2], ind + 1))
    if k == 'Loop':
        return '(Loop %s)' % coq_stmt(s[1], ind + 1)
    if k == 'Prim':
        return '(Prim %s [%s])' % (coq_string(s[1]), '; '.join('C_' + c for c in s[2]))
    if k == 'Raise':
        return '(Raise C_%s %s)' % (s[1], 'None' if s[2] is None else '(Some %s)' % coq_z(s[2]))
    if k == 'IfErrno':
        et = s[1]
        t = '(EIn [%s])' % '; '.join(coq_z(v) for v in et[1]) if et[0] == 'EIn' else '(EMask %s)' % coq_z(et[1])
        return '(IfErrno %s %s\n%s%s)' % (t, coq_stmt(s[2], ind + 1), ' ' * (ind + 1), coq_stmt(s[3], ind + 1))
    if k == 'Try':
        hs = 'HNil'
        for pat, hb in reversed(s[2]):
            hs = '(HCons [%s] %s\n%s%s)' % ('; '.join('C_' + c for c in pat), coq_stmt(hb, ind + 2), ' ' * (ind + 1), hs)
        return '(Try %s\n%s%s)' % (coq_stmt(s[1], ind + 1), ' ' * (ind + 1), hs)
    if k == 'Finally':
        return '(Finally %s\n%s%s)' % (coq_stmt(s[1], ind + 1), ' ' * (ind + 1), coq_stmt(s[2], ind + 1))
    if k == 'Call':
        return '(Call %s)' % coq_string(s[1])
    raise SkelError('internal: ' + repr(s))


def extract(repo):
    """returns {driver: {function: stmt}}, assumptions, digests"""
    world = World(repo)
    progs, assumptions = {}, []
    IMPLICIT['unproven'], IMPLICIT['proven'] = [], 0
    for name, devkey, chipkey in DRIVERS:
        tr = Translator(world, name, devkey, chipkey)
        progs[name] = tr.run()
        for a in tr.assumptions:
            if a not in assumptions:
                assumptions.append(a)
        for u in tr.unproven:
            IMPLICIT['unproven'].append('%s: %s' % (name, u))
        IMPLICIT['proven'] += tr.proven
    digests = {m: hashlib.sha1(world.mods[m].src.encode()).hexdigest()[:12] for m in MODULES}
    return progs, assumptions, digests


IMPLICIT = {'unproven': [], 'proven': 0}


def generate(repo):
    progs, assumptions, digests = extract(repo)
    out = ['(* GENERATED by translate/skel_c13.py from %s{%s}.py - do not edit.' % (CLF, ','.join(MODULES)),
           '   source digests: ' + ' '.join('%s=%s' % kv for kv in sorted(digests.items())),
           '   ASSUMPTIONS (explicit, see module docstring of the extractor):']
    out += ['     - ' + a for a in assumptions]
    out += ['     - .decode() of hexlify() output and of the datagram built in udp.Device._send_data cannot fail',
            '     - implicit exceptions: only subscript / unpacking / struct.unpack / iteration on host data are represented',
            '   IMPLICIT-RAISE SITES on host data proved safe by a recognised guard: %d' % IMPLICIT['proven'],
            '   IMPLICIT-RAISE SITES NOT PROVED SAFE (each is a Prim that raises): %d' % len(IMPLICIT['unproven'])] + \
        ['     ! ' + u for u in IMPLICIT['unproven']] + [
            '*)',
            'From Coq Require Import ZArith List String.',
            'From NV Require Import Skel.ExnSyntax.',
            'Import ListNotations.',
            'Open Scope Z_scope.',
            'Open Scope string_scope.', '']
    for n, (i, _p) in sorted(CLASSES.items(), key=lambda kv: kv[1][0]):
        out.append('Definition C_%s : cls := %d.' % (n, i))
    out.append('Definition class_names : list (cls * string) :=\n  [%s].' % '; '.join(
        '(C_%s, %s)' % (n, coq_string(n)) for n, _ in sorted(CLASSES.items(), key=lambda kv: kv[1][0])))
    out.append('Definition documented_classes : list cls := [%s].' % '; '.join('C_' + c for c in ALLOWED))
    out.append('')
    for name, _d, _c in DRIVERS:
        fs = progs[name]
        items = []
        for q in fs:
            items.append('  (%s,\n   %s)' % (coq_string(q), coq_stmt(fs[q], 3)))
        out.append('Definition prog_%s : program := [\n%s\n].\n' % (name, ';\n'.join(items)))
    out.append('Definition driver_programs : list (string * program) :=\n  [%s].' % '; '.join(
        '(%s, prog_%s)' % (coq_string(n), n) for n, _d, _c in DRIVERS))
    out.append('Definition entry : string := "Frontend.exchange".')
    return '\n'.join(out) + '\n'


generate.SOURCE = CLF + '{pn53x,pn531,pn532,pn533,rcs956,acr122,arygon,rcs380,udp,device,__init__}.py'

if __name__ == '__main__':
    import sys
    sys.stdout.write(generate(sys.argv[1] if len(sys.argv) > 1 else '/repo'))
