"""Skeleton extractor for C13 (exception flow of the contactless drivers).

generate(repo_root) parses the driver modules with `ast` and reduces, for every supported driver,
ContactlessFrontend.exchange and everything it can reach (send_cmd_recv_rsp, send_rsp_recv_cmd,
the _tt1/_tt2/_tt3 special paths, the Chipset methods down to Chipset.command and
transport.read/write, the RC-S380 send_command / Frame, the UDP _send_data / _recv_data) to a
statement of coq/Skel/ExnSyntax.v.  One `program` per driver; method resolution (self.<m>,
self.chipset.<m>, super(..).<m>) is done here along the class hierarchy of that driver.

  raise C(...)                          -> Raise C errno      (errno literal if the first argument is one)
  raise / raise <handler name>          -> Reraise
  try/except/finally                    -> Try / HCons (class pattern incl. subclasses) / Finally
  if <test on handler name>             -> IfErrno           (error.errno == / != / in / not in ...; rcs380 error == "NAME")
  self.transport.read/write, socket ops -> Prim with raise-set {IOError}
  unhexlify(..), <bytes>.decode(codec)  -> Prim with raise-set {binascii.Error} / {UnicodeDecodeError}
  assert                                -> Prim "assert@file:line" with EMPTY raise-set (recorded as an assumption:
                                           asserts are argument preconditions of the driver API)
  calls of translated functions         -> Call
  everything on the PURE lists          -> Skip

Implicit exceptions of Python operations (subscripts, tuple unpacking, struct.unpack, int()) are NOT
represented: that part of the property is carried by the fault-injection runs only.

The extractor FAILS CLOSED: an ast node type, a called name, a method called on a value, an except
clause or an errno test that is not on one of the explicit lists raises SkelError; kernels.py then
writes a Gen file that does not compile and every obligation depending on it breaks.
"""
import ast
import errno as _errno
import hashlib
import os


class SkelError(Exception):
    pass


CLF = 'src/nfc/clf/'
MODULES = ['pn53x', 'pn531', 'pn532', 'pn533', 'rcs956', 'acr122', 'arygon', 'rcs380', 'udp', 'device', '__init__']

# driver -> (module, Device class, Chipset (module, class) or None)
DRIVERS = [
    ('pn531', ('pn531', 'Device'), ('pn531', 'Chipset')),
    ('pn532', ('pn532', 'Device'), ('pn532', 'Chipset')),
    ('pn533', ('pn533', 'Device'), ('pn533', 'Chipset')),
    ('rcs956', ('rcs956', 'Device'), ('rcs956', 'Chipset')),
    ('acr122', ('acr122', 'Device'), ('acr122', 'Chipset')),
    ('arygon_a', ('arygon', 'DeviceA'), ('arygon', 'ChipsetA')),
    ('arygon_b', ('arygon', 'DeviceB'), ('arygon', 'ChipsetB')),
    ('rcs380', ('rcs380', 'Device'), ('rcs380', 'Chipset')),
    ('udp', ('udp', 'Device'), None),
]

# exception classes: name -> (id, parent name)
CLASSES = {
    'IOError': (1, None),
    'TimeoutError': (2, 'CommunicationError'),
    'BrokenLinkError': (3, 'CommunicationError'),
    'TransmissionError': (4, 'CommunicationError'),
    'ProtocolError': (5, 'CommunicationError'),
    'CommunicationError': (6, 'ClfError'),
    'UnsupportedTargetError': (7, 'ClfError'),
    'ClfError': (8, None),
    'ChipsetError': (10, None),            # pn53x.Chipset.Error
    'RcsCommunicationError': (11, None),   # rcs380.CommunicationError
    'RcsStatusError': (12, None),          # rcs380.StatusError
    'ValueError': (20, None),
    'BinasciiError': (21, 'ValueError'),
    'UnicodeDecodeError': (22, 'ValueError'),
    'AssertionError': (23, None),
    'NotImplementedError': (24, None),
    'IndexError': (25, None),
    'TypeError': (26, None),
    'KeyError': (27, None),
    'StructError': (28, None),
}
ALLOWED = ['IOError', 'TimeoutError', 'BrokenLinkError', 'TransmissionError', 'ProtocolError', 'CommunicationError']

# how exception classes are written in the sources, per module
CLASS_SPELLINGS = {
    'IOError': 'IOError', 'OSError': 'IOError', 'socket.error': 'IOError', 'select.error': 'IOError',
    'socket.timeout': 'IOError',
    'nfc.clf.TimeoutError': 'TimeoutError', 'nfc.clf.BrokenLinkError': 'BrokenLinkError',
    'nfc.clf.TransmissionError': 'TransmissionError', 'nfc.clf.ProtocolError': 'ProtocolError',
    'nfc.clf.CommunicationError': 'CommunicationError', 'nfc.clf.UnsupportedTargetError': 'UnsupportedTargetError',
    'nfc.clf.Error': 'ClfError',
    'Chipset.Error': 'ChipsetError',
    'ValueError': 'ValueError', 'AssertionError': 'AssertionError', 'NotImplementedError': 'NotImplementedError',
    'IndexError': 'IndexError', 'TypeError': 'TypeError', 'KeyError': 'KeyError', 'struct.error': 'StructError',
}
MODULE_CLASS_SPELLINGS = {
    'rcs380': {'CommunicationError': 'RcsCommunicationError', 'StatusError': 'RcsStatusError'},
    '__init__': {'TimeoutError': 'TimeoutError', 'BrokenLinkError': 'BrokenLinkError',
                 'TransmissionError': 'TransmissionError', 'ProtocolError': 'ProtocolError',
                 'CommunicationError': 'CommunicationError', 'UnsupportedTargetError': 'UnsupportedTargetError'},
}

# ---------------------------------------------------------------- whitelists
PURE_FUNCS = {'bytearray', 'bytes', 'len', 'int', 'str', 'bool', 'range', 'zip', 'sum', 'min', 'max', 'tuple', 'list',
              'isinstance', 'hexlify', 'memoryview', 'pack', 'unpack', 'reduce', 'chr', 'type', 'float', 'sorted',
              'dict', 'enumerate', 'reversed', 'repr'}
PURE_DOTTED = {'time.time', 'time.sleep', 'os.strerror', 'struct.pack', 'struct.unpack', 'binascii.hexlify',
               'log.debug', 'log.info', 'log.error', 'log.warning', 'log.log', 'log.exception',
               'self.log.debug', 'self.log.info', 'self.log.error', 'self.log.warning', 'self.log.log',
               'operator.xor'}
# methods of plain data values (bytes, bytearray, str, list, dict)
PURE_METHODS = {'format', 'startswith', 'endswith', 'append', 'extend', 'get', 'index', 'pop', 'join', 'insert',
                'split', 'strip', 'encode', 'items', 'keys', 'values', 'upper', 'lower'}
# receivers of .decode() whose content is ASCII by construction (hex digits / a validated brty string)
PURE_DECODE = {('*', 'hexlify'), ('*', 'binascii.hexlify'), ('udp.Device._send_data', 'data')}
# primitives with a raise-set
PRIM_DOTTED = {
    'self.transport.read': ['IOError'], 'self.transport.write': ['IOError'],
    'self.socket.sendto': ['IOError'], 'self.socket.recvfrom': ['IOError'], 'self.socket.getsockname': ['IOError'],
    'select.select': ['IOError'],
    'unhexlify': ['BinasciiError'],
}
# class-level tables (dicts / byte strings) read through self
SELF_DATA_ATTRS = {'ERR', 'CMD', 'REG', 'REGBYNAME', 'SOF', 'ACK'}
MODULE_NAMES = {'nfc', 'time', 'os', 'errno', 'log', 'logging', 'struct', 'socket', 'select', 'operator', 'binascii',
                'device', 'sys'}


def cid(name):
    return CLASSES[name][0]


def with_subclasses(name):
    out = [name]
    changed = True
    while changed:
        changed = False
        for n, (_i, p) in CLASSES.items():
            if p in out and n not in out:
                out.append(n)
                changed = True
    return out


# ---------------------------------------------------------------- statement constructors
SKIP = ('Skip',)


def seq(*xs):
    out = None
    for x in reversed([x for x in xs if x != SKIP]):
        out = x if out is None else ('Seq', x, out)
    return out if out is not None else SKIP


def choice(a, b):
    return a if a == b else ('Choice', a, b)


def dotted(node):
    """a.b.c for Name/Attribute chains, else None"""
    parts = []
    while isinstance(node, ast.Attribute):
        parts.append(node.attr)
        node = node.value
    if isinstance(node, ast.Name):
        parts.append(node.id)
        return '.'.join(reversed(parts))
    return None


class Module(object):
    def __init__(self, name, path):
        self.name = name
        self.src = open(path).read()
        self.tree = ast.parse(self.src)
        self.classes = {}
        self.funcs = {}
        self.imports = {}      # local module alias -> module name (from . import x)
        for n in self.tree.body:
            if isinstance(n, ast.ClassDef):
                self.classes[n.name] = n
            elif isinstance(n, ast.FunctionDef):
                self.funcs[n.name] = n
            elif isinstance(n, ast.ImportFrom) and n.level == 1 and n.module is None:
                for a in n.names:
                    self.imports[a.asname or a.name] = a.name


class World(object):
    def __init__(self, repo):
        self.mods = {}
        for m in MODULES:
            self.mods[m] = Module(m, os.path.join(repo, CLF, m + '.py'))

    def cls(self, key):
        m, c = key
        try:
            return self.mods[m].classes[c]
        except KeyError:
            raise SkelError('unknown class %s.%s' % key)

    def base(self, key):
        """single inheritance chain"""
        node = self.cls(key)
        if len(node.bases) != 1:
            raise SkelError('class %s.%s: expected exactly one base' % key)
        b = dotted(node.bases[0])
        if b == 'object':
            return None
        if b in ('nfc.clf.device.Device', 'device.Device'):
            return ('device', 'Device')
        parts = b.split('.')
        if len(parts) == 2 and parts[0] in self.mods[key[0]].imports:
            return (self.mods[key[0]].imports[parts[0]], parts[1])
        if len(parts) == 1 and parts[0] in self.mods[key[0]].classes:
            return (key[0], parts[0])
        raise SkelError('class %s.%s: cannot resolve base %s' % (key[0], key[1], b))

    def mro(self, key):
        out = []
        while key is not None:
            out.append(key)
            key = self.base(key)
        return out

    def method(self, key, name, after=None):
        """(defining class key, FunctionDef) of method `name` for an object of class `key`;
        after=K: start the search behind K in the mro (super(K, self))"""
        chain = self.mro(key)
        if after is not None:
            if after not in chain:
                raise SkelError('super(%s.%s) outside the class chain' % after)
            chain = chain[chain.index(after) + 1:]
        for k in chain:
            for n in self.cls(k).body:
                if isinstance(n, ast.FunctionDef) and n.name == name:
                    return k, n
        return None


class FuncCtx(object):
    def __init__(self, tr, modname, selfkey, defkey, qual, node):
        self.tr, self.modname, self.selfkey, self.defkey, self.qual, self.node = tr, modname, selfkey, defkey, qual, node
        self.handler_names = []          # stack of names bound by enclosing except clauses
        self.nested = {}                 # nested function name -> qualified name
        self.aliases = {}                # local name -> set of self.device method names


class Translator(object):
    """one driver"""

    def __init__(self, world, driver, devkey, chipkey):
        self.w, self.driver, self.devkey, self.chipkey = world, driver, devkey, chipkey
        self.funcs = {}          # qualified name -> stmt
        self.todo = []
        self.assumptions = []

    # ---- naming / scheduling
    def want_method(self, selfkey, defkey, node):
        key = '%s.%s.%s' % (defkey[0], defkey[1], node.name)
        if key not in self.funcs:
            self.funcs[key] = None
            self.todo.append((key, defkey[0], selfkey, defkey, node))
        return key

    def want_function(self, modname, node):
        key = '%s.%s' % (modname, node.name)
        if key not in self.funcs:
            self.funcs[key] = None
            self.todo.append((key, modname, None, None, node))
        return key

    def run(self):
        fe = self.w.mods['__init__'].classes['ContactlessFrontend']
        ex = [n for n in fe.body if isinstance(n, ast.FunctionDef) and n.name == 'exchange']
        if len(ex) != 1:
            raise SkelError('ContactlessFrontend.exchange not found')
        self.funcs['Frontend.exchange'] = None
        self.todo.append(('Frontend.exchange', '__init__', ('__init__', 'ContactlessFrontend'), ('__init__', 'ContactlessFrontend'), ex[0]))
        while self.todo:
            key, modname, selfkey, defkey, node = self.todo.pop(0)
            ctx = FuncCtx(self, modname, selfkey, defkey, key, node)
            self.funcs[key] = self.body(ctx, node.body)
        return self.funcs

    # ---- exception class resolution
    def exc_class(self, ctx, node):
        d = dotted(node)
        if d is None:
            raise SkelError('%s:%d: exception class expression not understood' % (ctx.modname, node.lineno))
        local = MODULE_CLASS_SPELLINGS.get(ctx.modname, {})
        if d in local:
            return local[d]
        if d in CLASS_SPELLINGS:
            return CLASS_SPELLINGS[d]
        raise SkelError('%s:%d: unknown exception class %s' % (ctx.modname, node.lineno, d))

    def int_literal(self, node):
        if isinstance(node, ast.Constant) and isinstance(node.value, int) and not isinstance(node.value, bool):
            return node.value
        d = dotted(node)
        if d and d.startswith('errno.') and hasattr(_errno, d[6:]):
            # Linux values; the harness runs on the same platform
            return getattr(_errno, d[6:])
        if isinstance(node, ast.Constant) and isinstance(node.value, bytes) and len(node.value) == 4:
            return int.from_bytes(node.value, 'little')      # rcs380 CommunicationError(b'\0\0\0\0')
        return None

    # ---- expressions: the calls they make, in evaluation order
    def eff(self, ctx, e):
        if e is None:
            return SKIP
        t = type(e)
        if t in (ast.Constant, ast.Name):
            return SKIP
        if t is ast.Attribute:
            return self.eff(ctx, e.value)
        if t is ast.Subscript:
            return seq(self.eff(ctx, e.value), self.eff(ctx, e.slice))
        if t is ast.Slice:
            return seq(self.eff(ctx, e.lower), self.eff(ctx, e.upper), self.eff(ctx, e.step))
        if t is ast.BinOp:
            return seq(self.eff(ctx, e.left), self.eff(ctx, e.right))
        if t is ast.UnaryOp:
            return self.eff(ctx, e.operand)
        if t is ast.Compare:
            return seq(self.eff(ctx, e.left), *[self.eff(ctx, c) for c in e.comparators])
        if t is ast.BoolOp:
            out = self.eff(ctx, e.values[-1])
            for v in reversed(e.values[:-1]):
                out = seq(self.eff(ctx, v), choice(SKIP, out))
            return out
        if t is ast.IfExp:
            return seq(self.eff(ctx, e.test), choice(self.eff(ctx, e.body), self.eff(ctx, e.orelse)))
        if t in (ast.Tuple, ast.List, ast.Set):
            return seq(*[self.eff(ctx, x) for x in e.elts])
        if t is ast.Dict:
            return seq(*[seq(self.eff(ctx, k), self.eff(ctx, v)) for k, v in zip(e.keys, e.values)])
        if t is ast.Starred:
            return self.eff(ctx, e.value)
        if t is ast.JoinedStr:
            return seq(*[self.eff(ctx, v) for v in e.values])
        if t is ast.FormattedValue:
            return self.eff(ctx, e.value)
        if t in (ast.ListComp, ast.GeneratorExp, ast.SetComp):
            inner = self.eff(ctx, e.elt)
            for g in reversed(e.generators):
                inner = seq(self.eff(ctx, g.iter), ('Loop', seq(*([self.eff(ctx, c) for c in g.ifs] + [inner]))))
            return inner
        if t is ast.Call:
            return self.call(ctx, e)
        raise SkelError('%s:%d: expression %s not supported' % (ctx.modname, getattr(e, 'lineno', 0), t.__name__))

    def args_eff(self, ctx, e):
        return seq(*([self.eff(ctx, a) for a in e.args] + [self.eff(ctx, k.value) for k in e.keywords]))

    def call(self, ctx, e):
        f = e.func
        d = dotted(f)
        args = self.args_eff(ctx, e)
        where = '%s:%d' % (ctx.modname, e.lineno)
        # super(Cls, self).m(...)
        if isinstance(f, ast.Attribute) and isinstance(f.value, ast.Call) and dotted(f.value.func) == 'super':
            sargs = f.value.args
            if len(sargs) != 2 or dotted(sargs[1]) != 'self' or dotted(sargs[0]) != ctx.defkey[1]:
                raise SkelError(where + ': unusual super() call')
            r = self.w.method(ctx.selfkey, f.attr, after=ctx.defkey)
            if r is None:
                raise SkelError(where + ': super().%s not found' % f.attr)
            return seq(args, ('Call', self.want_method(ctx.selfkey, r[0], r[1])))
        # method call on the result of another call / subscript: x(...).m(...), x[..].m(...)
        if d is None:
            if isinstance(f, ast.Attribute):
                recv = self.eff(ctx, f.value)
                if f.attr == 'decode':
                    rd = dotted(f.value.func) if isinstance(f.value, ast.Call) else None
                    if ('*', rd) in PURE_DECODE:
                        return seq(recv, args)
                    return seq(recv, args, ('Prim', 'bytes.decode@' + where, ['UnicodeDecodeError']))
                if f.attr in PURE_METHODS:
                    return seq(recv, args)
            raise SkelError(where + ': call through an expression that is not understood')
        # nested function or alias of a device method
        if d in ctx.nested:
            return seq(args, ('Call', ctx.nested[d]))
        if d in ctx.aliases:
            out = None
            for m in sorted(ctx.aliases[d]):
                r = self.w.method(self.devkey, m)
                if r is None:
                    raise SkelError(where + ': device method %s not found' % m)
                c = ('Call', self.want_method(self.devkey, r[0], r[1]))
                out = c if out is None else choice(out, c)
            return seq(args, out)
        if d in PRIM_DOTTED:
            return seq(args, ('Prim', d + '@' + where, PRIM_DOTTED[d]))
        if d in PURE_DOTTED or d in PURE_FUNCS:
            return args
        parts = d.split('.')
        # exception class instantiation (argument of raise, handled there) or other class of the module
        if self.is_exc_class(ctx, f):
            return args
        mod = self.w.mods[ctx.modname]
        if len(parts) == 1:
            if d in mod.funcs:
                return seq(args, ('Call', self.want_function(ctx.modname, mod.funcs[d])))
            if d in mod.classes:
                init = self.w.method((ctx.modname, d), '__init__')
                if init is None:
                    return args
                return seq(args, ('Call', self.want_method((ctx.modname, d), init[0], init[1])))
            raise SkelError(where + ': call of unknown name %s' % d)
        if parts[0] == 'self':
            if len(parts) == 2:
                r = self.w.method(ctx.selfkey, parts[1])
                if r is None:
                    raise SkelError(where + ': method self.%s not found' % parts[1])
                return seq(args, ('Call', self.want_method(ctx.selfkey, r[0], r[1])))
            if len(parts) == 3 and parts[1] == 'chipset':
                if self.chipkey is None:
                    raise SkelError(where + ': driver without chipset calls self.chipset')
                r = self.w.method(self.chipkey, parts[2])
                if r is None:
                    raise SkelError(where + ': chipset method %s not found' % parts[2])
                return seq(args, ('Call', self.want_method(self.chipkey, r[0], r[1])))
            if len(parts) == 3 and parts[1] == 'device' and ctx.qual == 'Frontend.exchange':
                r = self.w.method(self.devkey, parts[2])
                if r is None:
                    raise SkelError(where + ': device method %s not found' % parts[2])
                return seq(args, ('Call', self.want_method(self.devkey, r[0], r[1])))
            if len(parts) == 3 and parts[1] in SELF_DATA_ATTRS and parts[2] in PURE_METHODS:
                return args
            raise SkelError(where + ': call %s not classified' % d)
        # method of a plain value held in a local variable / attribute
        if parts[0] not in MODULE_NAMES and len(parts) >= 2:
            m = parts[-1]
            if m == 'decode':
                if (ctx.qual, '.'.join(parts[:-1])) in PURE_DECODE:
                    return args
                return seq(args, ('Prim', 'bytes.decode@' + where, ['UnicodeDecodeError']))
            if m in PURE_METHODS:
                return args
        raise SkelError(where + ': call %s not classified' % d)

    def is_exc_class(self, ctx, node):
        d = dotted(node)
        if d is None:
            return False
        return d in MODULE_CLASS_SPELLINGS.get(ctx.modname, {}) or d in CLASS_SPELLINGS

    # ---- errno tests inside handlers
    def mentions(self, node, name):
        return any(isinstance(n, ast.Name) and n.id == name for n in ast.walk(node))

    def errno_test(self, ctx, test, name):
        """returns (etest, negated) for a test on the handled exception `name`"""
        where = '%s:%d' % (ctx.modname, test.lineno)
        neg = False
        while isinstance(test, ast.UnaryOp) and isinstance(test.op, ast.Not):
            neg = not neg
            test = test.operand
        if not (isinstance(test, ast.Compare) and len(test.ops) == 1):
            raise SkelError(where + ': test on the handled exception not understood')
        left, op, right = test.left, test.ops[0], test.comparators[0]
        if dotted(left) == name + '.errno':
            if isinstance(op, (ast.Eq, ast.NotEq)):
                v = self.int_literal(right)
                if v is None:
                    raise SkelError(where + ': errno compared with a non-literal')
                return ('EIn', [v]), neg ^ isinstance(op, ast.NotEq)
            if isinstance(op, (ast.In, ast.NotIn)) and isinstance(right, (ast.Tuple, ast.List)):
                vs = [self.int_literal(x) for x in right.elts]
                if None in vs:
                    raise SkelError(where + ': errno compared with a non-literal')
                return ('EIn', vs), neg ^ isinstance(op, ast.NotIn)
        if dotted(left) == name and isinstance(op, (ast.Eq, ast.NotEq)) and isinstance(right, ast.Constant) \
                and isinstance(right.value, str) and ctx.modname == 'rcs380':
            table = self.rcs380_str2err()
            if right.value not in table:
                raise SkelError(where + ': unknown RC-S380 error name %s' % right.value)
            if table[right.value] == 0:
                raise SkelError(where + ': comparison with NO_ERROR not supported')
            return ('EMask', table[right.value]), neg ^ isinstance(op, ast.NotEq)
        raise SkelError(where + ': test on the handled exception not understood')

    def rcs380_str2err(self):
        cls = self.w.mods['rcs380'].classes['CommunicationError']
        for n in cls.body:
            if isinstance(n, ast.Assign) and dotted(n.targets[0]) == 'err2str' and isinstance(n.value, ast.Dict):
                return {v.value: k.value for k, v in zip(n.value.keys, n.value.values)}
        raise SkelError('rcs380.CommunicationError.err2str not found')

    # ---- statements
    def body(self, ctx, stmts):
        # nested function definitions and aliases first (they may be used before their textual position
        # only after definition in Python, but registering early is harmless)
        for s in stmts:
            if isinstance(s, ast.FunctionDef):
                q = ctx.qual + '.<locals>.' + s.name
                ctx.nested[s.name] = q
                if q not in self.funcs:
                    self.funcs[q] = None
                    sub = FuncCtx(self, ctx.modname, ctx.selfkey, ctx.defkey, q, s)
                    sub.nested = dict(ctx.nested)
                    self.funcs[q] = self.body(sub, s.body)
        for s in ast.walk(ast.Module(body=list(stmts), type_ignores=[])):
            if isinstance(s, ast.Assign) and len(s.targets) == 1 and isinstance(s.targets[0], ast.Name):
                d = dotted(s.value)
                if d and d.startswith('self.device.') and d.count('.') == 2:
                    ctx.aliases.setdefault(s.targets[0].id, set()).add(d.split('.')[2])
        return seq(*[self.stmt(ctx, s) for s in stmts])

    def stmt(self, ctx, s):
        t = type(s)
        where = '%s:%d' % (ctx.modname, s.lineno)
        if t is ast.FunctionDef:
            return SKIP
        if t is ast.Expr:
            return self.eff(ctx, s.value)
        if t is ast.Assign:
            if len(s.targets) == 1 and isinstance(s.targets[0], ast.Name) and s.targets[0].id in ctx.aliases \
                    and (dotted(s.value) or '').startswith('self.device.'):
                return SKIP
            return seq(self.eff(ctx, s.value), *[self.eff(ctx, x) for x in s.targets])
        if t is ast.AugAssign:
            return seq(self.eff(ctx, s.value), self.eff(ctx, s.target))
        if t in (ast.Pass, ast.Delete, ast.Global, ast.Nonlocal):
            return SKIP
        if t is ast.Return:
            return seq(self.eff(ctx, s.value), ('Return',))
        if t in (ast.Break, ast.Continue):
            return ('Break',)
        if t is ast.Assert:
            self.assumptions.append('assert at %s.py:%d holds (argument precondition)' % (ctx.modname, s.lineno))
            return seq(self.eff(ctx, s.test), ('Prim', 'assert@' + where, []))
        if t is ast.If:
            if ctx.handler_names and self.mentions(s.test, ctx.handler_names[-1]):
                et, neg = self.errno_test(ctx, s.test, ctx.handler_names[-1])
                a, b = self.body2(ctx, s.body), self.body2(ctx, s.orelse)
                return ('IfErrno', et, b, a) if neg else ('IfErrno', et, a, b)
            for nm in ctx.handler_names[:-1]:
                if self.mentions(s.test, nm):
                    raise SkelError(where + ': test on an outer handled exception')
            return seq(self.eff(ctx, s.test), choice(self.body2(ctx, s.body), self.body2(ctx, s.orelse)))
        if t is ast.While:
            loop = ('Loop', seq(self.eff(ctx, s.test), self.body2(ctx, s.body)))
            return seq(loop, self.eff(ctx, s.test), self.body2(ctx, s.orelse))
        if t is ast.For:
            return seq(self.eff(ctx, s.iter), ('Loop', self.body2(ctx, s.body)), self.body2(ctx, s.orelse))
        if t is ast.With:
            if len(s.items) == 1 and dotted(s.items[0].context_expr) == 'self.lock' and s.items[0].optional_vars is None:
                return self.body2(ctx, s.body)
            raise SkelError(where + ': with-statement not supported')
        if t is ast.Raise:
            return self.raise_(ctx, s)
        if t is ast.Try:
            return self.try_(ctx, s)
        raise SkelError(where + ': statement %s not supported' % t.__name__)

    def body2(self, ctx, stmts):
        return seq(*[self.stmt(ctx, x) for x in stmts]) if stmts else SKIP

    def raise_(self, ctx, s):
        where = '%s:%d' % (ctx.modname, s.lineno)
        if s.cause is not None:
            raise SkelError(where + ': raise ... from not supported')
        if s.exc is None:
            if not ctx.handler_names:
                raise SkelError(where + ': bare raise outside a handler')
            return ('Reraise',)
        if isinstance(s.exc, ast.Name) and ctx.handler_names and s.exc.id == ctx.handler_names[-1]:
            return ('Reraise',)
        if isinstance(s.exc, ast.Call) and self.is_exc_class(ctx, s.exc.func):
            c = self.exc_class(ctx, s.exc.func)
            no = self.int_literal(s.exc.args[0]) if s.exc.args else None
            if c in ('ChipsetError', 'RcsCommunicationError', 'RcsStatusError', 'IOError'):
                lit = no
            else:
                lit = 0          # these classes carry no errno
            return seq(self.args_eff(ctx, s.exc), ('Raise', c, lit))
        if self.is_exc_class(ctx, s.exc):
            c = self.exc_class(ctx, s.exc)
            return ('Raise', c, 0 if c not in ('ChipsetError', 'RcsCommunicationError', 'RcsStatusError', 'IOError') else None)
        raise SkelError(where + ': raise of something that is not a known exception class')

    def try_(self, ctx, s):
        where = '%s:%d' % (ctx.modname, s.lineno)
        body = self.body2(ctx, s.body)
        hs = []
        for h in s.handlers:
            if h.type is None:
                pat = sorted(CLASSES)
            else:
                types = h.type.elts if isinstance(h.type, ast.Tuple) else [h.type]
                pat = []
                for ty in types:
                    d = dotted(ty)
                    if d in ('Exception', 'BaseException'):
                        pat += sorted(CLASSES)
                    else:
                        pat += with_subclasses(self.exc_class(ctx, ty))
            if h.name:
                ctx.handler_names.append(h.name)
            else:
                ctx.handler_names.append('<anonymous handler>')
            try:
                hb = self.body2(ctx, h.body)
            finally:
                ctx.handler_names.pop()
            hs.append((pat, hb))
        out = ('Try', body, hs) if hs else body
        if s.orelse:
            # else-clause: runs after the body completed normally; sequencing it after the whole
            # Try adds behaviours (it would also run after a handler that falls through) - sound for escapes
            out = seq(out, self.body2(ctx, s.orelse))
        if s.finalbody:
            out = ('Finally', out, self.body2(ctx, s.finalbody))
        return out


# ---------------------------------------------------------------- Coq output
def coq_string(s):
    return '"' + s.replace('"', '""') + '"'


def coq_z(n):
    return '(%d)' % n if n < 0 else str(n)


def coq_stmt(s, ind=0):
    k = s[0]
    if k in ('Skip', 'Return', 'Break', 'Reraise'):
        return k
    if k in ('Seq', 'Choice'):
        return '(%s %s\n%s%s)' % (k, coq_stmt(s[1], ind + 1), ' ' * (ind + 1), coq_stmt(s[2], ind + 1))
    if k == 'Loop':
        return '(Loop %s)' % coq_stmt(s[1], ind + 1)
    if k == 'Prim':
        return '(Prim %s [%s])' % (coq_string(s[1]), '; '.join('C_' + c for c in s[2]))
    if k == 'Raise':
        return '(Raise C_%s %s)' % (s[1], 'None' if s[2] is None else '(Some %s)' % coq_z(s[2]))
    if k == 'IfErrno':
        et = s[1]
        t = '(EIn [%s])' % '; '.join(coq_z(v) for v in et[1]) if et[0] == 'EIn' else '(EMask %s)' % coq_z(et[1])
        return '(IfErrno %s %s\n%s%s)' % (t, coq_stmt(s[2], ind + 1), ' ' * (ind + 1), coq_stmt(s[3], ind + 1))
    if k == 'Try':
        hs = 'HNil'
        for pat, hb in reversed(s[2]):
            hs = '(HCons [%s] %s\n%s%s)' % ('; '.join('C_' + c for c in pat), coq_stmt(hb, ind + 2), ' ' * (ind + 1), hs)
        return '(Try %s\n%s%s)' % (coq_stmt(s[1], ind + 1), ' ' * (ind + 1), hs)
    if k == 'Finally':
        return '(Finally %s\n%s%s)' % (coq_stmt(s[1], ind + 1), ' ' * (ind + 1), coq_stmt(s[2], ind + 1))
    if k == 'Call':
        return '(Call %s)' % coq_string(s[1])
    raise SkelError('internal: ' + repr(s))


def extract(repo):
    """returns {driver: {function: stmt}}, assumptions, digests"""
    world = World(repo)
    progs, assumptions = {}, []
    for name, devkey, chipkey in DRIVERS:
        tr = Translator(world, name, devkey, chipkey)
        progs[name] = tr.run()
        for a in tr.assumptions:
            if a not in assumptions:
                assumptions.append(a)
    digests = {m: hashlib.sha1(world.mods[m].src.encode()).hexdigest()[:12] for m in MODULES}
    return progs, assumptions, digests


def generate(repo):
    progs, assumptions, digests = extract(repo)
    out = ['(* GENERATED by translate/skel_c13.py from %s{%s}.py - do not edit.' % (CLF, ','.join(MODULES)),
           '   source digests: ' + ' '.join('%s=%s' % kv for kv in sorted(digests.items())),
           '   ASSUMPTIONS (explicit, see module docstring of the extractor):']
    out += ['     - ' + a for a in assumptions]
    out += ['     - .decode() of hexlify() output and of the datagram built in udp.Device._send_data cannot fail',
            '     - implicit exceptions of Python operations are not represented *)',
            'From Coq Require Import ZArith List String.',
            'From NV Require Import Skel.ExnSyntax.',
            'Import ListNotations.',
            'Open Scope Z_scope.',
            'Open Scope string_scope.', '']
    for n, (i, _p) in sorted(CLASSES.items(), key=lambda kv: kv[1][0]):
        out.append('Definition C_%s : cls := %d.' % (n, i))
    out.append('Definition class_names : list (cls * string) :=\n  [%s].' % '; '.join(
        '(C_%s, %s)' % (n, coq_string(n)) for n, _ in sorted(CLASSES.items(), key=lambda kv: kv[1][0])))
    out.append('Definition documented_classes : list cls := [%s].' % '; '.join('C_' + c for c in ALLOWED))
    out.append('')
    for name, _d, _c in DRIVERS:
        fs = progs[name]
        items = []
        for q in fs:
            items.append('  (%s,\n   %s)' % (coq_string(q), coq_stmt(fs[q], 3)))
        out.append('Definition prog_%s : program := [\n%s\n].\n' % (name, ';\n'.join(items)))
    out.append('Definition driver_programs : list (string * program) :=\n  [%s].' % '; '.join(
        '(%s, prog_%s)' % (coq_string(n), n) for n, _d, _c in DRIVERS))
    out.append('Definition entry : string := "Frontend.exchange".')
    return '\n'.join(out) + '\n'


generate.SOURCE = CLF + '{pn53x,pn531,pn532,pn533,rcs956,acr122,arygon,rcs380,udp,device,__init__}.py'

if __name__ == '__main__':
    import sys
    sys.stdout.write(generate(sys.argv[1] if len(sys.argv) > 1 else '/repo'))
