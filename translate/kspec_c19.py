"""C19 kernel tie: the small pure expressions of the activation code are regenerated on every run from
src/nfc/dep.py and src/nfc/llcp/llc.py as Gallina functions (Gen/Negotiate.v); coq/Bridge/Negotiate.v
proves them equal to the corresponding definitions of Model/Negotiate.v.

  ATR_REQ_RES.lr, PSL_REQ.lr / dsi / dri, ATR_RES.wt                      (properties: `return E`)
  Initiator.activate:  self.brs = ..., self.lri = ..., ppi = ..., self.miu = ...
  Target.activate:     lrt = ..., rwt = ..., pp = ..., self.miu = ...
  LogicalLinkController.__init__:  self.cfg['send-lto'] = ...

Fail closed: an expression outside the language below, a missing function or a missing / duplicated
assignment raises, and the dependent obligations break.

  E ::= int | v | E + E | E - E | E * E | E // E | E << E | E >> E | E & E | E | E | (E)
      | min(E, E) | max(E, E) | int(C) | bool(v) << E (bool as int) | (k0, k1, ..)[E]
      | options.get('name', default)         -> the option value (a variable)
      | x.lr                                 -> a variable (the peer's LR value)
  C ::= v is not None | bool(v)
Variables: self.a / local names; their Coq types are given per kernel (Z, option Z, list Z).
"""
import ast
import os

DEP = 'src/nfc/dep.py'
LLC = 'src/nfc/llcp/llc.py'


class Bad(Exception):
    pass


def find(tree, qual):
    node = tree
    for part in qual.split('.'):
        for ch in ast.iter_child_nodes(node):
            if isinstance(ch, (ast.FunctionDef, ast.ClassDef)) and ch.name == part:
                node = ch
                break
        else:
            raise Bad('%s not found' % qual)
    return node


def name_of(e):
    """self.a -> 'a' ; a -> 'a' ; x.lr -> 'lr' ; options.get('n', d) -> 'n' ; self.cfg['k'] -> k"""
    if isinstance(e, ast.Name):
        return e.id
    if isinstance(e, ast.Attribute) and isinstance(e.value, ast.Name):
        return e.attr
    if (isinstance(e, ast.Call) and isinstance(e.func, ast.Attribute) and e.func.attr == 'get' and
            isinstance(e.func.value, ast.Name) and e.func.value.id == 'options' and len(e.args) == 2 and
            isinstance(e.args[0], ast.Constant) and isinstance(e.args[0].value, str)):
        return e.args[0].value
    raise Bad('not a variable: ' + ast.dump(e)[:60])


class Tr(object):
    def __init__(self, types):
        self.types = types          # name -> 'Z' | 'oZ' | 'bytes'
        self.used = []

    def var(self, e, want):
        n = name_of(e)
        if self.types.get(n) not in want:
            raise Bad('variable %s has type %s, wanted %s' % (n, self.types.get(n), want))
        if n not in self.used:
            self.used.append(n)
        return 'v_' + n

    def cond(self, e):
        if (isinstance(e, ast.Compare) and len(e.ops) == 1 and isinstance(e.ops[0], ast.IsNot) and
                isinstance(e.comparators[0], ast.Constant) and e.comparators[0].value is None):
            return '(match %s with Some _ => true | None => false end)' % self.var(e.left, ('oZ',))
        if isinstance(e, ast.Call) and isinstance(e.func, ast.Name) and e.func.id == 'bool' and len(e.args) == 1:
            n = name_of(e.args[0])
            t = self.types.get(n)
            if t == 'oZ':
                return '(match %s with Some x => negb (x =? 0) | None => false end)' % self.var(e.args[0], ('oZ',))
            if t == 'bytes':
                return '(match %s with nil => false | _ => true end)' % self.var(e.args[0], ('bytes',))
            raise Bad('bool() of %s' % t)
        raise Bad('condition ' + ast.dump(e)[:60])

    def expr(self, e):
        if isinstance(e, ast.Constant) and isinstance(e.value, int) and not isinstance(e.value, bool):
            return str(e.value) if e.value >= 0 else '(%d)' % e.value
        if isinstance(e, ast.BinOp):
            ops = {ast.Add: 'Z.add', ast.Sub: 'Z.sub', ast.Mult: 'Z.mul', ast.FloorDiv: 'Z.div', ast.LShift: 'Z.shiftl',
                   ast.RShift: 'Z.shiftr', ast.BitAnd: 'Z.land', ast.BitOr: 'Z.lor'}
            if type(e.op) not in ops:
                raise Bad('operator ' + type(e.op).__name__)
            return '(%s %s %s)' % (ops[type(e.op)], self.expr(e.left), self.expr(e.right))
        if isinstance(e, ast.Call) and isinstance(e.func, ast.Name):
            f = e.func.id
            if f in ('min', 'max') and len(e.args) == 2 and not e.keywords:
                return '(Z.%s %s %s)' % (f, self.expr(e.args[0]), self.expr(e.args[1]))
            if f == 'int' and len(e.args) == 1:
                return '(if %s then 1 else 0)' % self.cond(e.args[0])
            if f == 'bool' and len(e.args) == 1:
                return '(if %s then 1 else 0)' % self.cond(e)
            raise Bad('call ' + f)
        if isinstance(e, ast.Subscript) and isinstance(e.value, ast.Tuple):
            ks = []
            for k in e.value.elts:
                if not (isinstance(k, ast.Constant) and isinstance(k.value, int)):
                    raise Bad('non constant tuple')
                ks.append(str(k.value))
            return '(nth (Z.to_nat %s) [%s] 0)' % (self.expr(e.slice), '; '.join(ks))
        return self.var(e, ('Z',))


def assigned_value(fn, target):
    """the value of the single assignment `target = E` inside fn; target: 'self.miu' | 'ppi' | "self.cfg['send-lto']" """
    hits = []
    for node in ast.walk(fn):
        if isinstance(node, ast.Assign) and len(node.targets) == 1:
            if ast.unparse(node.targets[0]) == target:
                hits.append(node.value)
    if len(hits) != 1:
        raise Bad('%d assignments to %s in %s' % (len(hits), target, fn.name))
    return hits[0]


def returned_value(fn):
    body = [s for s in fn.body if not (isinstance(s, ast.Expr) and isinstance(s.value, ast.Constant))]
    if len(body) != 1 or not isinstance(body[0], ast.Return):
        raise Bad('%s is not a single return' % fn.name)
    return body[0].value


COQT = {'Z': 'Z', 'oZ': 'option Z', 'bytes': 'list Z'}

# (coq name, file, function, 'return' | assignment target, variable types in argument order)
KERNELS_SPEC = [
    ('gen_atr_lr', DEP, 'ATR_REQ_RES.lr', 'return', [('pp', 'Z')]),
    ('gen_psl_lr', DEP, 'PSL_REQ.lr', 'return', [('fsl', 'Z')]),
    ('gen_psl_dsi', DEP, 'PSL_REQ.dsi', 'return', [('brs', 'Z')]),
    ('gen_psl_dri', DEP, 'PSL_REQ.dri', 'return', [('brs', 'Z')]),
    ('gen_atr_wt', DEP, 'ATR_RES.wt', 'return', [('to', 'Z')]),
    ('gen_i_brs', DEP, 'Initiator.activate', 'self.brs', [('brs', 'Z')]),
    ('gen_i_lri', DEP, 'Initiator.activate', 'self.lri', [('lri', 'Z')]),
    ('gen_i_ppi', DEP, 'Initiator.activate', 'ppi', [('lri', 'Z'), ('gbi', 'bytes'), ('nad', 'oZ')]),
    ('gen_i_miu', DEP, 'Initiator.activate', 'self.miu', [('lr', 'Z'), ('did', 'oZ'), ('nad', 'oZ')]),
    ('gen_t_lrt', DEP, 'Target.activate', 'lrt', [('lrt', 'Z')]),
    ('gen_t_rwt', DEP, 'Target.activate', 'rwt', [('rwt', 'Z')]),
    ('gen_t_pp', DEP, 'Target.activate', 'pp', [('lrt', 'Z'), ('gbt', 'bytes'), ('nad', 'oZ')]),
    ('gen_t_miu', DEP, 'Target.activate', 'self.miu', [('lr', 'Z'), ('did', 'oZ'), ('nad', 'oZ')]),
    ('gen_send_lto', LLC, 'LogicalLinkController.__init__', "self.cfg['send-lto']", [('lto', 'Z')]),
]


def generate(repo):
    trees = {}
    out = ['(* GENERATED by translate/kspec_c19.py from %s and %s -- do not edit *)' % (DEP, LLC),
           'From Coq Require Import ZArith List Bool.', 'Import ListNotations.', 'Open Scope Z_scope.', '']
    for cname, path, qual, what, args in KERNELS_SPEC:
        if path not in trees:
            trees[path] = ast.parse(open(os.path.join(repo, path)).read())
        fn = find(trees[path], qual)
        e = returned_value(fn) if what == 'return' else assigned_value(fn, what)
        tr = Tr(dict(args))
        body = tr.expr(e)
        for n in tr.used:
            if n not in dict(args):
                raise Bad('%s: unexpected variable %s' % (cname, n))
        out.append('Definition %s %s : Z :=\n  %s.\n' % (cname, ' '.join('(v_%s : %s)' % (n, COQT[t]) for n, t in args), body))
    out.append(llc_activate_kernels(find(trees[LLC], 'LogicalLinkController.activate')))
    return '\n'.join(out)


def llc_activate_kernels(fn):
    """LogicalLinkController.activate: what is announced comes from cfg entries that no activation changes, and the values of
    the received PAX are ASSIGNED to the cfg entries (a setdefault, a conditional or a swapped field fails here or breaks
    the bridge lemma)"""
    out = []
    # --- announced values: if self.cfg[K] != D: send_pax.F = self.cfg[K]
    guards = {}
    for n in fn.body:
        if isinstance(n, ast.If) and not n.orelse and len(n.body) == 1 and isinstance(n.body[0], ast.Assign):
            a = n.body[0]
            tgt = ast.unparse(a.targets[0])
            if tgt.startswith('send_pax.') and isinstance(n.test, ast.Compare) and len(n.test.ops) == 1 and \
                    isinstance(n.test.ops[0], ast.NotEq) and isinstance(n.test.comparators[0], ast.Constant):
                if ast.unparse(n.test.left) != ast.unparse(a.value):
                    raise Bad('announce %s: tested and announced values differ' % tgt)
                guards[tgt[9:]] = (ast.unparse(a.value), n.test.comparators[0].value)
    want = {'miu': "self.cfg['recv-miu']", 'lto': "self.cfg['send-lto']", 'lsc': 'local_lsc'}
    for f, src in want.items():
        if f not in guards or guards[f][0] != src:
            raise Bad('announce %s: source is %r, expected %s' % (f, guards.get(f), src))
    out.append('Definition gen_announce_guards : Z * Z * Z := (%d, %d, %d).' % (guards['miu'][1], guards['lto'][1], guards['lsc'][1]))
    v = assigned_value(fn, 'local_lsc')
    if ast.unparse(v) != "self.cfg.setdefault('local-lsc', self.cfg['send-lsc'])":
        raise Bad('local_lsc = ' + ast.unparse(v))
    for n in ast.walk(fn):
        if isinstance(n, ast.Assign) and ast.unparse(n.targets[0]) in ("self.cfg['recv-miu']", "self.cfg['send-lto']", "self.cfg['local-lsc']",
                                                                       "self.cfg['llcp-sec']"):
            raise Bad('activate assigns ' + ast.unparse(n.targets[0]))
    out.append('Definition gen_announce_lsc (v_local : option Z) (v_send_lsc : Z) : Z :=\n'
               '  match v_local with Some v => v | None => v_send_lsc end.   (* cfg.setdefault(\'local-lsc\', cfg[\'send-lsc\']) *)')
    # --- take-over: self.cfg[K] = rcvd_pax.F   (plain assignments, each exactly once, nothing else touches these keys)
    keys = ['send-miu', 'recv-lto', 'send-wks', 'send-lsc', 'llcp-dpc', 'rcvd-ver']
    fields = {}
    for k in keys:
        v = assigned_value(fn, "self.cfg['%s']" % k)
        if k == 'llcp-dpc':
            if not (isinstance(v, ast.IfExp) and ast.unparse(v.test) == "self.cfg['llcp-sec']" and
                    isinstance(v.orelse, ast.Constant) and v.orelse.value == 0 and ast.unparse(v.body).startswith('rcvd_pax.')):
                raise Bad("cfg['llcp-dpc'] = " + ast.unparse(v))
            fields[k] = '(if v_sec then v_%s else 0)' % ast.unparse(v.body)[9:]
        else:
            if not (isinstance(v, ast.Attribute) and ast.unparse(v).startswith('rcvd_pax.')):
                raise Bad("cfg['%s'] = %s" % (k, ast.unparse(v)))
            fields[k] = 'v_' + v.attr
    for n in ast.walk(fn):
        if isinstance(n, ast.Call) and isinstance(n.func, ast.Attribute) and ast.unparse(n.func.value) == 'self.cfg' and \
                n.func.attr in ('setdefault', 'update', 'pop') and not (n.func.attr == 'setdefault' and ast.unparse(n.args[0]) == "'local-lsc'"):
            raise Bad('activate calls self.cfg.%s' % n.func.attr)
    out.append('Definition gen_cfg_assign (v_sec : bool) (v_miu v_lto v_wks v_lsc v_dpc v_version : Z) : bool * Z * Z * Z * Z * Z * Z :=\n'
               '  (true, %s).\n' % ', '.join(fields[k] for k in keys))
    return '\n'.join(out)


generate.SOURCE = DEP + ' + ' + LLC
KERNELS = {'Negotiate': generate}
