"""C10 kernels regenerated from the source on every run -> coq/Gen/CollectK.v

collect(), ServiceDiscovery.dequeue() and TransmissionControlObject.dequeue() are stateful (deques, locks,
try/except) and outside the py2coq subset as whole functions.  What the C10 theorems depend on are the
*budget expressions and size tests* inside them.  This generator pulls exactly those expressions out of the
functions' syntax trees, checks that the functions still contain the expected number of them (fail closed:
any other shape raises and leaves a Gen file that cannot compile), replaces the non-arithmetic leaves
(`self.cfg["send-miu"]`, `len(agf_pdu)`, `len(send_pdu)`, `send_pdu.header_size`, ...) by parameters and
hands the resulting pure expression to py2coq.  The `__len__` methods and `header_size` constants of the PDU
classes that can sit in a send queue are translated as whole functions.  coq/Bridge/Collect.v proves that
every generated kernel is the expression the model uses.
"""
import ast
import os
import sys

sys.path.insert(0, os.path.dirname(os.path.abspath(__file__)))
import py2coq  # noqa: E402

I, B = 'int', 'bytes'
Unsupported = py2coq.Unsupported


def find(tree, qualname):
    return py2coq.find_function(tree, qualname)


class Subst(ast.NodeTransformer):
    def __init__(self, table):
        self.table = table

    def visit(self, node):
        if isinstance(node, ast.expr):
            src = ast.unparse(node)
            if src in self.table:
                return ast.Name(id=self.table[src], ctx=ast.Load())
        return self.generic_visit(node)


def kernel(coqname, expr, args, table):
    """expr (ast) with the leaves of `table` replaced by parameters -> Coq definition text"""
    e = Subst(table).visit(ast.parse(ast.unparse(expr), mode='eval').body)
    src = 'def k(%s):\n    return %s\n' % (', '.join(a for a, _ in args), ast.unparse(e))
    node = ast.parse(src).body[0]
    return py2coq.Fn(node, dict(args), coqname=coqname).translate()


def nodes(fn, cls, pred=lambda n: True):
    return [n for n in ast.walk(fn) if isinstance(n, cls) and pred(n)]


def in_order(ns):
    return sorted(ns, key=lambda n: (n.lineno, n.col_offset))


def expect(what, got, n):
    if len(got) != n:
        raise Unsupported('%s: expected %d occurrence(s), found %d' % (what, n, len(got)))
    return got


def targets(n, name):
    return len(n.targets) == 1 and isinstance(n.targets[0], ast.Name) and n.targets[0].id == name


def class_const(tree, cls, name):
    for c in tree.body:
        if isinstance(c, ast.ClassDef) and c.name == cls:
            for s in c.body:
                if isinstance(s, ast.Assign) and targets(s, name) and isinstance(s.value, ast.Constant) \
                        and isinstance(s.value.value, int):
                    return s.value.value
    raise Unsupported('%s.%s constant not found' % (cls, name))


def whole(tree, qualname, coqname, args):
    return py2coq.Fn(find(tree, qualname), args, coqname=coqname).translate()


def generate(repo):
    out = [py2coq.PRELUDE % {'src': 'src/nfc/llcp/{llc,tco,pdu}.py (translate/kspec_c10.py)'}]
    llc = ast.parse(open(os.path.join(repo, 'src/nfc/llcp/llc.py')).read())
    tco = ast.parse(open(os.path.join(repo, 'src/nfc/llcp/tco.py')).read())
    pdu = ast.parse(open(os.path.join(repo, 'src/nfc/llcp/pdu.py')).read())

    # ---------------- LogicalLinkController.collect
    col = find(llc, 'LogicalLinkController.collect')
    T = {'self.cfg["send-miu"]': 'send_miu', "self.cfg['send-miu']": 'send_miu', 'len(agf_pdu)': 'agf_len',
         'len(send_pdu)': 'pdu_len', 'send_pdu.header_size': 'hdr_size'}
    asg = expect('collect: assignments to miu_size', in_order(nodes(col, ast.Assign, lambda n: targets(n, 'miu_size'))), 4)
    out.append(kernel('gen_c10_miu_first', asg[0].value, [('send_miu', I)], T))
    for i, a in enumerate(asg[1:]):
        out.append(kernel('gen_c10_budget%d' % (i + 1), a.value, [('send_miu', I), ('agf_len', I)], T))
    wh = expect('collect: while loops', in_order(nodes(col, ast.While)), 1)
    out.append(kernel('gen_c10_agf_enter', wh[0].test, [('miu_size', I)], T))
    ifs = in_order(nodes(col, ast.If, lambda n: 'miu_size' in ast.unparse(n.test)))
    expect('collect: if tests on miu_size', ifs, 5)
    out.append(kernel('gen_c10_early_return', ifs[0].test, [('pdu_len', I), ('hdr_size', I), ('miu_size', I)], T))
    out.append(kernel('gen_c10_break_inner', ifs[1].test, [('miu_size', I)], T))
    out.append(kernel('gen_c10_break_outer', ifs[2].test, [('miu_size', I), ('deq_none', 'bool')], T))
    out.append(kernel('gen_c10_final_acks', ifs[3].test, [('miu_size', I)], T))
    out.append(kernel('gen_c10_break_acks', ifs[4].test, [('miu_size', I)], T))
    # the first dequeue is done with the full MIU and icv_size 0, the later ones with the budget
    calls = in_order(nodes(col, ast.Call, lambda n: ast.unparse(n.func) == 'sap.dequeue'))
    expect('collect: sap.dequeue calls', calls, 2)
    if ast.unparse(calls[0]) != 'sap.dequeue(miu_size, icv_size=0)' or ast.unparse(calls[1]) != 'sap.dequeue(miu_size, icv_size)':
        raise Unsupported('collect: sap.dequeue call shape changed')

    # ---------------- the ICV allowance: where icv_size comes from and what every dequeue call site passes on
    TS = {'self.sec.icv_size': 'sec_icv', 'self.sec': 'sec_on', "send_pdu.name in ('UI', 'I')": 'ui_or_i'}
    a = expect('collect: icv_size assignment', nodes(col, ast.Assign, lambda n: targets(n, 'icv_size')), 1)[0]
    out.append(kernel('gen_c10_icv_size', a.value, [('sec_on', 'bool'), ('sec_icv', I)], TS))
    enc = expect('collect: encryption tests', in_order(nodes(col, ast.If, lambda n: 'self.sec' in ast.unparse(n.test))), 2)
    for i, n in enumerate(enc):
        if ast.unparse(n.body[0]) != 'send_pdu = encrypt(send_pdu)':
            raise Unsupported('collect: encryption statement changed')
        out.append(kernel('gen_c10_encrypt_cond%d' % (i + 1), n.test, [('sec_on', 'bool'), ('ui_or_i', 'bool')], TS))
    sapdq = find(llc, 'ServiceAccessPoint.dequeue')
    tcodq = find(tco, 'TransmissionControlObject.dequeue')
    ldldq = find(tco, 'LogicalDataLink.dequeue')
    dlcdq = find(tco, 'DataLinkConnection.dequeue')
    rawdq = find(tco, 'RawAccessPoint.dequeue')
    for d in (sapdq, find(llc, 'ServiceDiscovery.dequeue'), ldldq, dlcdq, rawdq):
        if [x.arg for x in d.args.args] != ['self', 'miu_size', 'icv_size'] or d.args.defaults:
            raise Unsupported('%s: signature changed' % d.name)

    def passed(call, callee, pname):
        """the expression a call passes for parameter pname of callee (its default if the call omits it)"""
        params = [x.arg for x in callee.args.args if x.arg != 'self']
        dflt = dict(zip(params[len(params) - len(callee.args.defaults):], callee.args.defaults))
        got = dict(zip(params, call.args))
        for k in call.keywords:
            if k.arg is None or k.arg in got:
                raise Unsupported('call argument form')
            got[k.arg] = k.value
        if pname in got:
            return got[pname]
        if pname in dflt:
            return dflt[pname]
        raise Unsupported('call does not pass %s' % pname)

    def only_call(fn, what):
        return expect(what, nodes(fn, ast.Call, lambda n: isinstance(n.func, ast.Attribute) and n.func.attr == 'dequeue'), 1)[0]

    sites = [('gen_c10_icv_first', calls[0], sapdq), ('gen_c10_icv_agg', calls[1], sapdq),
             ('gen_c10_icv_sap', only_call(sapdq, 'ServiceAccessPoint.dequeue: socket.dequeue call'), ldldq),
             ('gen_c10_icv_ldl', only_call(ldldq, 'LogicalDataLink.dequeue: super().dequeue call'), tcodq),
             ('gen_c10_icv_dlc', only_call(dlcdq, 'DataLinkConnection.dequeue: super().dequeue call'), tcodq),
             ('gen_c10_icv_raw', only_call(rawdq, 'RawAccessPoint.dequeue: super().dequeue call'), tcodq)]
    for name, call, callee in sites:
        out.append(kernel(name, passed(call, callee, 'icv_size'), [('icv_size', I)], {}))
        m = ast.unparse(passed(call, callee, 'miu_size'))
        if m != ('None' if name == 'gen_c10_icv_raw' else 'miu_size'):
            raise Unsupported('%s: miu_size argument changed' % name)

    # ---------------- ServiceDiscovery.dequeue
    sdq = find(llc, 'ServiceDiscovery.dequeue')
    S = {'len(self.dmpdu)': 'n_dm'}
    wh = expect('ServiceDiscovery.dequeue: while loops', in_order(nodes(sdq, ast.While)), 1)
    out.append(kernel('gen_c10_sd_more', wh[0].test, [('miu_size', I)], S))
    aug = expect('ServiceDiscovery.dequeue: miu_size -= ..', in_order(nodes(
        sdq, ast.AugAssign, lambda n: isinstance(n.target, ast.Name) and n.target.id == 'miu_size' and isinstance(n.op, ast.Sub))), 2)
    out.append(kernel('gen_c10_sd_res_cost', aug[0].value, [], S))
    out.append(kernel('gen_c10_sd_req_cost', aug[1].value, [('name', B)], S))
    ifs = in_order(nodes(sdq, ast.If, lambda n: 'miu_size' in ast.unparse(n.test)))
    expect('ServiceDiscovery.dequeue: if tests on miu_size', ifs, 2)
    out.append(kernel('gen_c10_sd_req_over', ifs[0].test, [('name', B), ('miu_size', I)], S))
    out.append(kernel('gen_c10_sd_dm', ifs[1].test, [('n_dm', I), ('miu_size', I)], S))

    # ---------------- TransmissionControlObject.dequeue
    tdq = find(tco, 'TransmissionControlObject.dequeue')
    Q = {'len(send_pdu)': 'pdu_len', 'send_pdu.header_size': 'hdr_size'}
    asg = expect('TCO.dequeue: assignments to pdu_size', in_order(nodes(tdq, ast.Assign, lambda n: targets(n, 'pdu_size'))), 2)
    out.append(kernel('gen_c10_size_ui_i', asg[0].value, [('pdu_len', I), ('icv_size', I)], Q))
    out.append(kernel('gen_c10_size_other', asg[1].value, [('pdu_len', I)], Q))
    szif = expect('TCO.dequeue: UI/I test', nodes(tdq, ast.If, lambda n: ast.unparse(n.test) == "send_pdu.name in ('UI', 'I')"), 1)[0]
    if szif.body != [asg[0]] or szif.orelse != [asg[1]]:
        raise Unsupported('TCO.dequeue: pdu_size computation changed')
    ifs = in_order(nodes(tdq, ast.If, lambda n: 'miu_size' in ast.unparse(n.test)))
    expect('TCO.dequeue: if tests on miu_size', ifs, 1)
    t = ifs[0].test
    if not (isinstance(t, ast.BoolOp) and isinstance(t.op, ast.And) and len(t.values) == 2 and
            ast.unparse(t.values[0]) == 'miu_size is not None'):
        raise Unsupported('TCO.dequeue: size test shape changed')
    out.append(kernel('gen_c10_requeue', t.values[1], [('pdu_size', I), ('hdr_size', I), ('miu_size', I)], Q))
    pre = ifs[0].body
    if not any(isinstance(s, ast.Return) and ast.unparse(s) == 'return None' for s in pre):
        raise Unsupported('TCO.dequeue: oversized PDU is not held back')

    # ---------------- pdu.py: how the MIU is learnt from a MIUX TLV and turned into an MIU
    pdec = find(pdu, 'Parameter.decode')
    br = expect('Parameter.decode: MIUX branch', nodes(pdec, ast.If, lambda n: ast.unparse(n.test) == 'T == Parameter.MIUX'), 1)[0]
    unp = [x for x in br.body if isinstance(x, ast.Assign) and targets(x, 'V')]
    if len(unp) != 1 or ast.unparse(unp[0].value) != "struct.unpack('>H', V)[0]":
        raise Unsupported('Parameter.decode: MIUX value is not a 16-bit big-endian integer')
    ifs = expect('Parameter.decode: MIUX branch tests', [x for x in br.body if isinstance(x, ast.If)], 2)
    if ast.unparse(ifs[0].test) != 'L != 2' or not isinstance(ifs[0].body[0], ast.Raise):
        raise Unsupported('Parameter.decode: MIUX length check changed')
    inner = ifs[1]
    if inner.orelse:
        raise Unsupported('Parameter.decode: MIUX reserved-bit test has an else branch')
    msk = expect('Parameter.decode: MIUX mask assignment', [x for x in inner.body if isinstance(x, ast.Assign) and targets(x, 'V')], 1)[0]
    if any(isinstance(x, (ast.Assign, ast.AugAssign)) for x in br.body if x is not unp[0]):
        raise Unsupported('Parameter.decode: MIUX branch assigns more than expected')
    out.append(kernel('gen_c10_miux_reserved', inner.test, [('V', I)], {}))
    out.append(kernel('gen_c10_miux_masked', msk.value, [('V', I)], {}))
    M_ = {'self._miux': 'miux'}
    pmiu = find(pdu, 'ParameterExchange.miu')
    out.append(py2coq.Fn(ast.parse('def k(miux):\n    return %s\n' % ast.unparse(
        Subst(M_).visit(ast.parse(ast.unparse(expect('ParameterExchange.miu: return', nodes(pmiu, ast.Return), 1)[0].value.body),
                                  mode='eval').body))).body[0], {'miux': I}, coqname='gen_c10_pax_miu').translate())
    for cls, nm, var in (('Connect', 'gen_c10_connect_miu', 'connect_pdu.miu'), ('ConnectionComplete', 'gen_c10_cc_miu', 'cc_pdu.miu')):
        dec = find(pdu, cls + '.decode')
        a = expect(cls + '.decode: miu assignment', [x for x in ast.walk(dec) if isinstance(x, ast.Assign) and
                                                     len(x.targets) == 1 and ast.unparse(x.targets[0]) == var], 1)[0]
        out.append(kernel(nm, a.value, [('V', I)], {}))

    # ---------------- pdu.py: __len__ and header_size of the queued PDU classes
    out.append('Definition gen_c10_hdr_plain : Z := %d.\n' % class_const(pdu, 'ProtocolDataUnit', 'header_size'))
    out.append('Definition gen_c10_hdr_numbered : Z := %d.\n' % class_const(pdu, 'NumberedProtocolDataUnit', 'header_size'))
    out.append(whole(pdu, 'UnnumberedInformation.__len__', 'gen_c10_len_ui', {'self.data': B}))
    out.append(whole(pdu, 'Information.__len__', 'gen_c10_len_i', {'self.data': B}))
    out.append(whole(pdu, 'NumberedProtocolDataUnit.__len__', 'gen_c10_len_rr_rnr', {}))
    out.append(whole(pdu, 'DisconnectedMode.__len__', 'gen_c10_len_dm', {}))
    out.append(whole(pdu, 'FrameReject.__len__', 'gen_c10_len_frmr', {}))
    out.append(whole(pdu, 'Disconnect.__len__', 'gen_c10_len_disc', {}))
    return '\n'.join(out)


generate.SOURCE = 'src/nfc/llcp/{llc,tco,pdu}.py'
KERNELS = {'CollectK': generate}
