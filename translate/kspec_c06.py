"""C06 kernels regenerated from the source on every run -> coq/Gen/SnepK.v

The SNEP / handover client functions and server loops block on sockets and are outside the py2coq
subset as whole functions (Model/Snep.v models them as automata, tied by correspondence).  What the
C06 theorems depend on is their *fragmentation arithmetic*: the header pack / unpack, the size tests,
the slices and range() bounds of the fragment loops, the protocol constants and the socket option the
fragment size is read from.  This generator cuts exactly those expressions out of the functions'
syntax trees (fail closed: a function that no longer has the expected shape raises, which leaves a Gen
file that cannot compile), replaces non-arithmetic leaves (`self.acceptable_length`, ...) by parameters
and hands the pure expression to py2coq.  coq/Bridge/Snep.v proves that every generated kernel is the
expression Model/Snep.v computes with.

struct formats (not in py2coq; expanded here, big-endian standard sizes only):
  pack   '>..L..'  : L is rewritten to I (both are 4 octets in standard size mode) and py2coq's
                     pack_be32 is used; Python raises struct.error outside 0..2^32-1, the bridge
                     lemmas carry that range
  unpack '>BBL', '>BxL', '>L' : field k at octet offset o of the source bytes d becomes d[o] (B) or
                     ((d[o]*256 + d[o+1])*256 + d[o+2])*256 + d[o+3] (L); x skips one octet
"""
import ast
import os
import sys

sys.path.insert(0, os.path.dirname(os.path.abspath(__file__)))
import py2coq  # noqa: E402

I, B, BO = 'int', 'bytes', 'bool'
Unsupported = py2coq.Unsupported


# ---------------------------------------------------------------- helpers
def find(tree, qualname):
    return py2coq.find_function(tree, qualname)


class Subst(ast.NodeTransformer):
    """replace leaves by parameter names; rewrite struct.pack formats L -> I"""

    def __init__(self, table):
        self.table = table

    def visit(self, node):
        if isinstance(node, ast.expr):
            src = ast.unparse(node)
            if src in self.table:
                return ast.Name(id=self.table[src], ctx=ast.Load())
            if (isinstance(node, ast.Call) and ast.unparse(node.func) == 'struct.pack' and node.args and
                    isinstance(node.args[0], ast.Constant) and isinstance(node.args[0].value, str)):
                fmt = node.args[0].value
                if not fmt.startswith('>') or any(c not in 'BL' for c in fmt[1:]):
                    raise Unsupported('struct.pack format %r' % fmt)
                node = ast.Call(func=node.func, args=[ast.Constant(fmt.replace('L', 'I'))] + node.args[1:], keywords=[])
        return self.generic_visit(node)


def kernel(coqname, expr, args, table=None):
    """expr (ast or source text) with the leaves of `table` replaced by parameters -> Coq definition"""
    text = expr if isinstance(expr, str) else ast.unparse(expr)
    e = Subst(table or {}).visit(ast.parse(text, mode='eval').body)
    src = 'def k(%s):\n    return %s\n' % (', '.join(a for a, _ in args), ast.unparse(e))
    return py2coq.Fn(ast.parse(src).body[0], dict(args), coqname=coqname).translate()


def const_bytes(coqname, node):
    if not (isinstance(node, ast.Constant) and isinstance(node.value, bytes)):
        raise Unsupported('%s: bytes literal expected, found %s' % (coqname, ast.unparse(node)))
    return 'Definition %s : list Z := [%s].\n' % (coqname, '; '.join(str(b) for b in node.value))


def nodes(fn, cls, pred=lambda n: True):
    return sorted([n for n in ast.walk(fn) if isinstance(n, cls) and pred(n)], key=lambda n: (n.lineno, n.col_offset))


def expect(what, got, n):
    if len(got) != n:
        raise Unsupported('%s: expected %d occurrence(s), found %d' % (what, n, len(got)))
    return got


def same(what, exprs):
    texts = set(ast.unparse(e) for e in exprs)
    if len(texts) != 1:
        raise Unsupported('%s: occurrences differ: %s' % (what, sorted(texts)))
    return exprs[0]


def assigns(fn, name):
    return nodes(fn, ast.Assign, lambda n: len(n.targets) == 1 and ast.unparse(n.targets[0]) == name)


def calls(fn, func):
    return nodes(fn, ast.Call, lambda n: ast.unparse(n.func) == func)


def unpack_field(fmt, index, src):
    """python source of field `index` of struct.unpack(fmt, src) (see module docstring)"""
    if not fmt.startswith('>'):
        raise Unsupported('struct.unpack format %r' % fmt)
    off, k = 0, 0
    for c in fmt[1:]:
        if c == 'x':
            off += 1
            continue
        if c not in 'BL':
            raise Unsupported('struct.unpack format %r' % fmt)
        if k == index:
            if c == 'B':
                return '%s[%d]' % (src, off)
            return '((%s[%d] * 256 + %s[%d]) * 256 + %s[%d]) * 256 + %s[%d]' % (src, off, src, off + 1, src, off + 2, src, off + 3)
        off += 1 if c == 'B' else 4
        k += 1
    raise Unsupported('struct.unpack format %r has no field %d' % (fmt, index))


def unpack_call(what, node, func):
    """node is struct.<func>(fmt, src) -> (fmt, source text of src)"""
    if not (isinstance(node, ast.Call) and ast.unparse(node.func) == 'struct.' + func and len(node.args) == 2 and
            not node.keywords and isinstance(node.args[0], ast.Constant) and isinstance(node.args[0].value, str)):
        raise Unsupported('%s: struct.%s(fmt, data) expected, found %s' % (what, func, ast.unparse(node)))
    return node.args[0].value, '(' + ast.unparse(node.args[1]) + ')'


def range_parts(what, node, want):
    """node is range(a, b, c): the three argument texts must be `want`; -> the three asts"""
    if not (isinstance(node, ast.Call) and ast.unparse(node.func) == 'range' and len(node.args) == 3 and not node.keywords):
        raise Unsupported('%s: range(start, stop, step) expected, found %s' % (what, ast.unparse(node)))
    got = tuple(ast.unparse(a) for a in node.args)
    if got != want:
        raise Unsupported('%s: range%s expected, found range%s' % (what, want, got))
    return node.args


def sockopt(what, fn, var):
    """`var = <sock>.getsockopt(nfc.llcp.SO_xxx)` -> 'SO_xxx'"""
    a = expect(what + ': assignment to ' + var, assigns(fn, var), 1)[0].value
    if not (isinstance(a, ast.Call) and isinstance(a.func, ast.Attribute) and a.func.attr == 'getsockopt' and
            len(a.args) == 1 and ast.unparse(a.args[0]).startswith('nfc.llcp.SO_')):
        raise Unsupported('%s: %s is not read with getsockopt(nfc.llcp.SO_..)' % (what, var))
    return ast.unparse(a.args[0])[len('nfc.llcp.'):]


def module_int(tree, name):
    for s in tree.body:
        if isinstance(s, ast.Assign) and len(s.targets) == 1 and ast.unparse(s.targets[0]) == name and \
                isinstance(s.value, ast.Constant) and isinstance(s.value.value, int):
            return s.value.value
    raise Unsupported('constant %s not found' % name)


# ---------------------------------------------------------------- the generator
def generate(repo):
    def parse(rel):
        return ast.parse(open(os.path.join(repo, rel)).read())
    out = [py2coq.PRELUDE % {'src': 'src/nfc/snep/{client,server}.py, src/nfc/handover/{client,server}.py, '
                                    'src/nfc/llcp/__init__.py (translate/kspec_c06.py)'}]
    scl, ssv = parse('src/nfc/snep/client.py'), parse('src/nfc/snep/server.py')
    hcl, hsv = parse('src/nfc/handover/client.py'), parse('src/nfc/handover/server.py')
    llcp = parse('src/nfc/llcp/__init__.py')
    opt = {n: module_int(llcp, n) for n in ('SO_SNDMIU', 'SO_RCVMIU', 'SO_SNDBUF', 'SO_RCVBUF')}
    out.append('Definition gen_c06_SO_SNDMIU : Z := %d.\n' % opt['SO_SNDMIU'])
    out.append('Definition gen_c06_SO_RCVMIU : Z := %d.\n' % opt['SO_RCVMIU'])

    # ================= snep/client.py: send_request
    f = find(scl, 'send_request')
    if [a.arg for a in f.args.args] != ['socket', 'snep_request', 'send_miu']:
        raise Unsupported('send_request: argument list changed')
    ifs = expect('send_request: if statements', nodes(f, ast.If), 4)
    out.append(kernel('gen_c06_req_whole', ifs[0].test, [('snep_request', B), ('send_miu', I)]))
    if ast.unparse(ifs[0].body[0]) != 'return socket.send(snep_request)':
        raise Unsupported('send_request: an unfragmented request is not sent whole')
    t = ifs[1].test
    if not (isinstance(t, ast.UnaryOp) and isinstance(t.op, ast.Not) and ast.unparse(t.operand.func) == 'socket.send' and len(t.operand.args) == 1):
        raise Unsupported('send_request: first fragment send changed')
    out.append(kernel('gen_c06_req_first', t.operand.args[0], [('snep_request', B), ('send_miu', I)]))
    t = ifs[2].test
    if not (isinstance(t, ast.Compare) and len(t.ops) == 1 and isinstance(t.ops[0], ast.NotEq) and
            ast.unparse(t.left) == 'socket.recv()' and ast.unparse(ifs[2].body[0]) == 'return False'):
        raise Unsupported('send_request: Continue test changed')
    out.append(const_bytes('gen_c06_rsp_continue', t.comparators[0]))
    loop = expect('send_request: for loops', nodes(f, ast.For), 1)[0]
    if ast.unparse(loop.target) != 'offset':
        raise Unsupported('send_request: loop variable changed')
    a, b_, c = range_parts('send_request', loop.iter, ('send_miu', 'len(snep_request)', 'send_miu'))
    out.append(kernel('gen_c06_req_range_start', a, [('snep_request', B), ('send_miu', I)]))
    out.append(kernel('gen_c06_req_range_stop', b_, [('snep_request', B), ('send_miu', I)]))
    out.append(kernel('gen_c06_req_range_step', c, [('snep_request', B), ('send_miu', I)]))
    frag = expect('send_request: fragment assignment', assigns(loop, 'fragment'), 1)[0]
    out.append(kernel('gen_c06_req_fragment', frag.value, [('snep_request', B), ('offset', I), ('send_miu', I)]))
    if ast.unparse(ifs[3].test) != 'not socket.send(fragment)':
        raise Unsupported('send_request: fragment send changed')

    # ================= snep/client.py: recv_response
    f = find(scl, 'recv_response')
    if [a.arg for a in f.args.args] != ['socket', 'acceptable_length', 'timeout']:
        raise Unsupported('recv_response: argument list changed')
    R = [('snep_response', B)]
    ifs = nodes(f, ast.If, lambda n: 'poll' not in ast.unparse(n.test))
    expect('recv_response: size tests', ifs, 3)
    out.append(kernel('gen_c06_rsp_short', ifs[0].test, R))
    up = expect('recv_response: header unpack', nodes(f, ast.Assign, lambda n: ast.unparse(n.targets[0]) == '(version, status, length)'), 1)[0]
    fmt, src = unpack_call('recv_response', up.value, 'unpack')
    if fmt != '>BBL':
        raise Unsupported('recv_response: header format %r' % fmt)
    out.append(kernel('gen_c06_rsp_length', unpack_field(fmt, 2, src), R))
    out.append(kernel('gen_c06_rsp_excess', ifs[1].test, [('length', I), ('acceptable_length', I)]))
    wh = nodes(f, ast.While)
    expect('recv_response: while loops', wh, 1)
    out.append(kernel('gen_c06_rsp_more', same('recv_response: incomplete test', [ifs[2].test, wh[0].test]), R + [('length', I)]))
    snd = expect('recv_response: socket.send calls', calls(f, 'socket.send'), 1)[0]
    out.append(const_bytes('gen_c06_req_continue', snd.args[0]))
    if ast.unparse(ifs[2].body[0]) != ast.unparse(ast.Expr(snd)):
        raise Unsupported('recv_response: Continue is not sent first when the response is incomplete')

    # ================= snep/client.py: get_octets / put_octets
    T = {'self.acceptable_length': 'acceptable_length'}
    f = find(scl, 'SnepClient.get_octets')
    rq = expect('get_octets: request', assigns(f, 'request'), 1)[0]
    out.append(kernel('gen_c06_get_request', rq.value, [('octets', B), ('acceptable_length', I)], T))
    st = expect('get_octets: status test', nodes(f, ast.If, lambda n: ast.unparse(n.test).startswith('response[')), 1)[0]
    out.append(kernel('gen_c06_status_fail', st.test, [('response', B)]))
    ret = expect('get_octets: returned slice', nodes(f, ast.Return, lambda n: n.value is not None and 'response[' in ast.unparse(n.value)), 1)[0]
    out.append(kernel('gen_c06_get_result', ret.value, [('response', B)]))
    f = find(scl, 'SnepClient.put_octets')
    rq = expect('put_octets: request', assigns(f, 'request'), 1)[0]
    out.append(kernel('gen_c06_put_request', rq.value, [('octets', B)], T))
    st2 = expect('put_octets: status test', nodes(f, ast.If, lambda n: ast.unparse(n.test).startswith('response[')), 1)[0]
    same('put_octets / get_octets status test', [st.test, st2.test])
    acc = expect('put_octets: recv_response call', calls(f, 'recv_response'), 1)[0]
    out.append(kernel('gen_c06_put_acceptable', acc.args[1], []))
    # which connection a request uses: `if not self.socket: connect(default); release = True / else: release = False`,
    # `finally: if self.release_connection: self.close()` (Model/Snep.v api_step)
    for name in ('SnepClient.get_octets', 'SnepClient.put_octets'):
        g = find(scl, name)
        top = expect(name + ': `if not self.socket`', [x for x in g.body if isinstance(x, ast.If) and ast.unparse(x.test) == 'not self.socket'], 1)[0]
        if [ast.unparse(x) for x in top.orelse] != ['self.release_connection = False']:
            raise Unsupported(name + ': release_connection is not cleared for an existing connection')
        tr = expect(name + ': connect try', [x for x in top.body if isinstance(x, ast.Try)], 1)[0]
        if ast.unparse(tr.body[0]) != "self.connect('urn:nfc:sn:snep')" or [ast.unparse(x) for x in tr.orelse] != ['self.release_connection = True']:
            raise Unsupported(name + ': one-shot connect changed')
        fin = expect(name + ': request try', [x for x in g.body if isinstance(x, ast.Try)], 1)[0]
        if [ast.unparse(x) for x in fin.finalbody] != ['if self.release_connection:\n    self.close()']:
            raise Unsupported(name + ': finally clause changed')
    f = find(scl, 'SnepClient.connect')
    if ast.unparse(f.body[1 if isinstance(f.body[0], ast.Expr) and isinstance(f.body[0].value, ast.Constant) else 0]) != 'self.close()':
        raise Unsupported('SnepClient.connect does not close an open connection first')
    out.append('Definition gen_c06_opt_snep_client : Z := %d.\n' % opt[sockopt('SnepClient.connect', f, 'self.send_miu')])

    # ================= snep/server.py: _serve
    f = find(ssv, 'SnepServer._serve')
    D = [('data', B)]
    out.append('Definition gen_c06_opt_snep_server : Z := %d.\n' % opt[sockopt('SnepServer._serve', f, 'send_miu')])
    ifs = nodes(f, ast.If, lambda n: ast.unparse(n.test) != 'not data')
    expect('_serve: tests', ifs, 6)
    out.append(kernel('gen_c06_srv_short', ifs[0].test, D))
    up = expect('_serve: header unpack', nodes(f, ast.Assign, lambda n: ast.unparse(n.targets[0]) == '(version, length)'), 1)[0]
    fmt, src = unpack_call('_serve', up.value, 'unpack_from')
    if fmt != '>BxL':
        raise Unsupported('_serve: header format %r' % fmt)
    out.append(kernel('gen_c06_srv_version', unpack_field(fmt, 0, src), D))
    out.append(kernel('gen_c06_srv_length', unpack_field(fmt, 1, src), D))
    out.append(kernel('gen_c06_srv_badver', ifs[1].test, [('version', I)]))
    out.append(kernel('gen_c06_srv_excess', ifs[2].test, [('length', I), ('max_acceptable_length', I)],
                      {'self.max_acceptable_length': 'max_acceptable_length'}))
    wh = nodes(f, ast.While, lambda n: 'poll' not in ast.unparse(n.test))
    expect('_serve: reassembly loop', wh, 1)
    out.append(kernel('gen_c06_srv_more', same('_serve: incomplete test', [ifs[3].test, wh[0].test]), D + [('length', I)]))
    sends = calls(f, 'client_socket.send')
    expect('_serve: client_socket.send calls', sends, 6)
    out.append(const_bytes('gen_c06_rsp_unsupver', sends[0].args[0]))
    out.append(const_bytes('gen_c06_rsp_reject', sends[1].args[0]))
    out.append(const_bytes('gen_c06_srv_rsp_continue', sends[2].args[0]))
    for i, want in ((1, 'version >> 4'), (2, 'length >'), (3, 'len(data) - 6')):
        if want not in ast.unparse(ifs[i].test):
            raise Unsupported('_serve: test %d changed: %s' % (i, ast.unparse(ifs[i].test)))
    if ast.unparse(ifs[1].body[-1]) != 'continue' or ast.unparse(ifs[2].body[-1]) != 'continue':
        raise Unsupported('_serve: refused requests are not skipped')
    # the response: whole / first fragment / Continue / remaining fragments
    out.append(kernel('gen_c06_srv_rsp_whole', ifs[4].test, D + [('send_miu', I)]))
    if ast.unparse(sends[3]) != 'client_socket.send(data)' or len(ifs[4].orelse) != 2:
        raise Unsupported('_serve: response send changed')
    out.append(kernel('gen_c06_srv_rsp_first', sends[4].args[0], D + [('send_miu', I)]))
    t = ifs[5].test
    if not (isinstance(t, ast.Compare) and len(t.ops) == 1 and isinstance(t.ops[0], ast.Eq) and ast.unparse(t.left) == 'client_socket.recv()'):
        raise Unsupported('_serve: Continue test changed')
    out.append(const_bytes('gen_c06_srv_req_continue', t.comparators[0]))
    parts = expect('_serve: parts', assigns(f, 'parts'), 1)[0]
    a, b_, c = range_parts('_serve', parts.value, ('send_miu', 'len(data)', 'send_miu'))
    out.append(kernel('gen_c06_srv_range_start', a, D + [('send_miu', I)]))
    out.append(kernel('gen_c06_srv_range_stop', b_, D + [('send_miu', I)]))
    out.append(kernel('gen_c06_srv_range_step', c, D + [('send_miu', I)]))
    loop = expect('_serve: for loops', nodes(f, ast.For), 1)[0]
    if ast.unparse(loop.target) != 'offset' or ast.unparse(loop.iter) != 'parts':
        raise Unsupported('_serve: fragment loop changed')
    out.append(kernel('gen_c06_srv_fragment', sends[5].args[0], D + [('offset', I), ('send_miu', I)]))

    # ================= snep/server.py: process_snep_request
    f = find(ssv, 'SnepServer.process_snep_request')
    Q = [('request_data', B)]
    ifs = nodes(f, ast.If, lambda n: 'request_data' in ast.unparse(n.test))
    expect('process_snep_request: request tests', ifs, 2)
    out.append(kernel('gen_c06_is_get', ifs[0].test, Q))
    out.append(kernel('gen_c06_is_put', ifs[1].test, Q))
    acc = expect('process_snep_request: acceptable_length', assigns(f, 'acceptable_length'), 1)[0].value
    if not (isinstance(acc, ast.Subscript) and ast.unparse(acc.slice) == '0'):
        raise Unsupported('process_snep_request: acceptable_length extraction changed')
    fmt, src = unpack_call('process_snep_request', acc.value, 'unpack')
    if fmt != '>L':
        raise Unsupported('process_snep_request: acceptable_length format %r' % fmt)
    out.append(kernel('gen_c06_get_acceptable', unpack_field(fmt, 0, src), Q))
    oc = expect('process_snep_request: octets', assigns(f, 'octets'), 2)
    out.append(kernel('gen_c06_get_octets', oc[0].value, Q))
    out.append(kernel('gen_c06_put_octets', oc[1].value, Q))
    ex = expect('process_snep_request: excess test', nodes(f, ast.If, lambda n: 'acceptable_length' in ast.unparse(n.test)), 1)[0]
    out.append(kernel('gen_c06_rsp_data_excess', ex.test, [('response_data', B), ('acceptable_length', I)]))
    hd = expect('process_snep_request: header', assigns(f, 'header'), 1)[0]
    rd = [x for x in assigns(f, 'response_data') if ast.unparse(x.value) == 'header + response_data']
    expect('process_snep_request: response_data = header + response_data', rd, 1)
    out.append(kernel('gen_c06_response', '(%s) + response_data' % ast.unparse(hd.value), [('response_code', I), ('response_data', B)]))

    # ================= handover/client.py: send_octets
    f = find(hcl, 'HandoverClient.send_octets')
    O = [('octets', B)]
    out.append('Definition gen_c06_opt_ho_client : Z := %d.\n' % opt[sockopt('send_octets', f, 'miu')])
    wh = expect('send_octets: while loops', nodes(f, ast.While), 1)[0]
    out.append(kernel('gen_c06_ho_more', wh.test, O))
    snd = expect('send_octets: send calls', calls(f, 'self.socket.send'), 1)[0]
    out.append(kernel('gen_c06_ho_frag', snd.args[0], O + [('miu', I)]))
    rest = expect('send_octets: octets = ..', assigns(wh, 'octets'), 1)[0]
    out.append(kernel('gen_c06_ho_rest', rest.value, O + [('miu', I)]))
    ret = expect('send_octets: return', nodes(f, ast.Return), 1)[0]
    out.append(kernel('gen_c06_ho_sent_all', ret.value, O))

    # ================= handover/server.py: serve
    f = find(hsv, 'HandoverServer.serve')
    out.append('Definition gen_c06_opt_ho_server : Z := %d.\n' % opt[sockopt('serve', f, 'send_miu')])
    emp = expect('serve: empty test', nodes(f, ast.If, lambda n: 'len(request)' in ast.unparse(n.test)), 1)[0]
    out.append(kernel('gen_c06_ho_empty', emp.test, [('request', B)]))
    dec = expect('serve: completeness decode', calls(f, 'ndef.message_decoder'), 1)[0]
    if ast.unparse(dec) != "ndef.message_decoder(request, 'strict', {})":
        raise Unsupported('serve: the completeness test does not decode strictly: %s' % ast.unparse(dec))
    loop = expect('serve: for loops', nodes(f, ast.For), 1)[0]
    if ast.unparse(loop.target) != 'offset':
        raise Unsupported('serve: loop variable changed')
    P = [('response', B), ('send_miu', I)]
    a, b_, c = range_parts('serve', loop.iter, ('0', 'len(response)', 'send_miu'))
    out.append(kernel('gen_c06_ho_range_start', a, P))
    out.append(kernel('gen_c06_ho_range_stop', b_, P))
    out.append(kernel('gen_c06_ho_range_step', c, P))
    frag = expect('serve: fragment assignment', assigns(loop, 'fragment'), 1)[0]
    out.append(kernel('gen_c06_ho_fragment', frag.value, [('response', B), ('offset', I), ('send_miu', I)]))
    brk = [s for s in wh_body(f) if isinstance(s, ast.Break)]
    if len(brk) != 1:
        raise Unsupported('serve: the inner loop does not end with a single break after the response')

    # handover/client.py recv_octets decodes strictly as well
    f = find(hcl, 'HandoverClient.recv_octets')
    dec = expect('recv_octets: completeness decode', calls(f, 'ndef.message_decoder'), 1)[0]
    if ast.unparse(dec) != "ndef.message_decoder(octets, 'strict', {})":
        raise Unsupported('recv_octets: the completeness test does not decode strictly: %s' % ast.unparse(dec))
    return '\n'.join(out)


def wh_body(serve):
    """statements of the inner `while socket.poll("recv")` loop of HandoverServer.serve"""
    whs = nodes(serve, ast.While)
    if len(whs) != 2:
        raise Unsupported('serve: two nested poll loops expected')
    return whs[1].body


generate.SOURCE = 'src/nfc/{snep,handover}/{client,server}.py'
KERNELS = {'SnepK': generate}
