"""C18 translation tie: the CONTROL SKELETON of nfc.clf.ContactlessFrontend.connect / _rdwr_connect /
_llcp_connect / _card_connect / sense / listen / exchange is cut out of src/nfc/clf/__init__.py with `ast`
on every run and written as Gallina data (coq/Gen/ConnectSkel.v, types in coq/Skel/ConnectSyntax.v).
coq/Bridge/Connect.v proves that the functions of Model/Connect.v are the interpreter
coq/Skel/ConnectRun.v applied to this data.

  gen_rdwr_connect, gen_llcp_connect, gen_card_connect : stmt
        the method bodies statement by statement: every statement is translated by a GENERIC walker
        (assignment, expression statement, if/elif/else, while, for role in (..), return, break, raise,
        try/except, with self.lock); calls are looked up LITERALLY (callee and arguments, ast.unparse) in
        a per-method table of observable actions; conditions are translated structurally (and / or /
        not / is None / is not None / bool(x) is True / isinstance(tag, TagEmulation) / option reads)
  gen_main_loop : stmt
        the try: while not terminate(): <rdwr, llcp, card blocks> except ...: return False  of connect()
  gen_startup, gen_default_targets, gen_default_iterations, gen_default_beep, gen_on_discover
        the option preparation of connect(): the blocks in source order with the default on-startup,
        the test that keeps a block, the defaults of the other callbacks and options
  gen_sense_skel, gen_sense_niter, gen_listen_skel, gen_exchange_skel
        prologue statements in source order (argument checks, device check, `self.target = None`,
        mute()), the if/elif dispatch chains, the except clauses of sense() with what they swallow,
        where mute() is called after an iteration, what is returned

Fail closed: every statement kind, every call text, every condition and every constant that is not on one
of the explicit tables raises Bad; kernels.generate then writes a file that does not compile and every
C18 obligation that depends on it breaks.  Pure statements (logging, timing, argument packing) must be
listed literally in PURE to be skipped.
"""
import ast
import os

SOURCE = 'src/nfc/clf/__init__.py'
CLASS = 'ContactlessFrontend'


class Bad(Exception):
    pass


def find(tree, qual):
    node = tree
    for part in qual.split('.'):
        for ch in ast.iter_child_nodes(node):
            if isinstance(ch, (ast.FunctionDef, ast.ClassDef)) and ch.name == part:
                node = ch
                break
        else:
            raise Bad('%s not found' % qual)
    return node


def U(n):
    return ast.unparse(n)


def is_log(n):
    return (isinstance(n, ast.Expr) and isinstance(n.value, ast.Call) and isinstance(n.value.func, ast.Attribute) and
            isinstance(n.value.func.value, ast.Name) and n.value.func.value.id == 'log' and
            n.value.func.attr in ('debug', 'info', 'warning', 'error'))


def is_doc(n):
    return isinstance(n, ast.Expr) and isinstance(n.value, ast.Constant) and isinstance(n.value.value, str)


def strip(body):
    """statements without docstring and logging"""
    return [n for n in body if not is_doc(n) and not is_log(n)]


# ------------------------------------------------------------------------------ generic statement walker
VARS = {'target': 'XTarget', 'tag': 'XTag', 'llc': 'XLlc', 'result': 'XResult', 'tag_rsp': 'XRsp', 'tag_cmd': 'XCmd'}
XCLS = {'IOError': 'EcIOError', 'UnsupportedTargetError': 'EcUnsupported', 'KeyboardInterrupt': 'EcKbd',
        'SystemExit': 'EcSystemExit', 'nfc.clf.BrokenLinkError': 'EcBrokenLink', 'nfc.clf.CommunicationError': 'EcCommError'}
RAISES = {'raise IOError(errno.ENODEV, os.strerror(errno.ENODEV))': 'EcIOError'}

ACTS = {
    '_rdwr_connect': {
        "self.sense(*options['targets'], iterations=options['iterations'], interval=options['interval'])": 'ASense',
        "options['on-discover'](target)": '(ACallback KDiscover)',
        'nfc.tag.activate(self, target)': 'ATagActivate',
        "options['on-connect'](tag)": '(ACallback KConnect)',
        'self.device.turn_on_led_and_buzzer()': 'ABeepOn',
        'terminate()': 'ATerminate',
        'tag.is_present': 'AIsPresent',
        'time.sleep(0.1)': 'ASleep',
        'self.device.turn_off_led_and_buzzer()': 'ABeepOff',
        "options['on-release'](tag)": '(ACallback KRelease)',
    },
    '_llcp_connect': {
        'llc.activate(mac=DEP(clf=self), **dep_cfg)': 'ALlcActivate',
        "options['on-connect'](llc)": '(ACallback KConnect)',
        'llc.run(terminate=terminate)': 'ALlcRun',
        "options['on-release'](llc)": '(ACallback KRelease)',
    },
    '_card_connect': {
        "self.listen(options['target'], timeout)": 'AListen',
        "options['on-discover'](target)": '(ACallback KDiscover)',
        'nfc.tag.emulate(self, target)': 'AEmulate',
        "options['on-connect'](tag)": '(ACallback KConnect)',
        'tag.process_command(tag.cmd)': 'AProcess',
        'tag.process_command(tag_cmd)': 'AProcess',
        'tag.send_response(tag_rsp, None)': 'ASendResponse',
        'terminate()': 'ATerminate',
        "options['on-release'](tag)": '(ACallback KRelease)',
    },
    'connect': {
        'terminate()': 'ATerminate',
        'self._rdwr_connect(rdwr_options, terminate)': '(ASub Rdwr)',
        'self._llcp_connect(llcp_options, terminate)': '(ASub Llcp)',
        'self._card_connect(card_options, terminate)': '(ASub Card)',
    },
}
# assignments without observable effect, literally; the role loop ties DEP to the loop variable
PURE = {
    '_rdwr_connect': set(),
    '_llcp_connect': {"DEP = eval('nfc.dep.' + role.capitalize())",
                      "dep_cfg = ('brs', 'acm', 'rwt', 'lrt', 'lri')",
                      'dep_cfg = {k: options[k] for k in dep_cfg if k in options}'},
    '_card_connect': {"timeout = options.get('timeout', 1.0)"},
    'connect': set(),
}
# plain reads used as conditions / values
READS = {
    "options['beep-on-connect']": 'EBeepOpt',
    "options['llc']": 'ELlcOpt',
    'self.device is None': 'EDevNone',
    "options.get('role') is None": 'ERoleIsNone',
    "options.get('role') == role": 'ERoleEq',
    'rdwr_options': '(EBlockOn Rdwr)', 'llcp_options': '(EBlockOn Llcp)', 'card_options': '(EBlockOn Card)',
}


class Walker(object):
    def __init__(self, fname):
        self.f = fname
        self.acts = ACTS[fname]
        self.used = set()

    def exp(self, e):
        t = U(e)
        if t in self.acts:
            self.used.add(t)
            return '(EAct %s)' % self.acts[t]
        if t in READS:
            if t in ('rdwr_options', 'llcp_options', 'card_options') and self.f != 'connect':
                raise Bad('%s: %s' % (self.f, t))
            return READS[t]
        if isinstance(e, ast.Name):
            if e.id in VARS:
                return '(EVar %s)' % VARS[e.id]
            raise Bad('%s: unknown name %s' % (self.f, e.id))
        if isinstance(e, ast.Constant):
            if e.value is None:
                return 'ENone'
            if e.value is True or e.value is False:
                return '(EBool %s)' % str(e.value).lower()
            raise Bad('%s: constant %r' % (self.f, e.value))
        if isinstance(e, ast.UnaryOp) and isinstance(e.op, ast.Not):
            return '(ENot %s)' % self.exp(e.operand)
        if isinstance(e, ast.BoolOp):
            c = 'EAnd' if isinstance(e.op, ast.And) else 'EOr'
            out = self.exp(e.values[-1])
            for v in reversed(e.values[:-1]):
                out = '(%s %s %s)' % (c, self.exp(v), out)
            return out
        if isinstance(e, ast.Compare) and len(e.ops) == 1:
            op, r = e.ops[0], e.comparators[0]
            if isinstance(r, ast.Constant) and r.value is None and isinstance(op, (ast.Is, ast.IsNot)):
                return '(%s %s)' % ('EIsNone' if isinstance(op, ast.Is) else 'EIsNotNone', self.exp(e.left))
            if (isinstance(r, ast.Constant) and r.value is True and isinstance(op, ast.Is) and isinstance(e.left, ast.Call) and
                    isinstance(e.left.func, ast.Name) and e.left.func.id == 'bool' and len(e.left.args) == 1 and not e.left.keywords):
                return '(EBoolIsTrue %s)' % self.exp(e.left.args[0])
        if t == 'isinstance(tag, nfc.tag.TagEmulation)':
            return '(EIsEmulation (EVar XTag))'
        raise Bad('%s: expression not classified: %s' % (self.f, t))

    def block(self, body):
        out = [self.stmt(n) for n in body]
        out = [s for s in out if s != 'SSkip']
        if not out:
            return 'SSkip'
        r = out[-1]
        for s in reversed(out[:-1]):
            r = '(SSeq %s %s)' % (s, r)
        return r

    def stmt(self, n):
        if is_doc(n) or is_log(n):
            return 'SSkip'
        t = U(n)
        if isinstance(n, ast.Assign):
            if t in PURE[self.f]:
                return 'SSkip'
            if len(n.targets) != 1 or not isinstance(n.targets[0], ast.Name) or n.targets[0].id not in VARS:
                raise Bad('%s: assignment not classified: %s' % (self.f, t))
            return '(SAssign %s %s)' % (VARS[n.targets[0].id], self.exp(n.value))
        if isinstance(n, ast.Expr):
            return '(SExpr %s)' % self.exp(n.value)
        if isinstance(n, ast.If):
            return '(SIf %s %s %s)' % (self.exp(n.test), self.block(n.body), self.block(n.orelse))
        if isinstance(n, ast.While):
            if n.orelse:
                raise Bad('%s: while/else' % self.f)
            return '(SWhile %s %s)' % (self.exp(n.test), self.block(n.body))
        if isinstance(n, ast.For):
            if U(n.target) != 'role' or U(n.iter) != "('target', 'initiator')" or n.orelse:
                raise Bad('%s: for loop not classified: %s' % (self.f, t.split('\n')[0]))
            return '(SFor XRole [MacTarget; MacInitiator] %s)' % self.block(n.body)
        if isinstance(n, ast.Return):
            return '(SReturn %s)' % ('ENone' if n.value is None else self.exp(n.value))
        if isinstance(n, ast.Break):
            return 'SBreak'
        if isinstance(n, ast.Raise):
            if t not in RAISES:
                raise Bad('%s: raise not classified: %s' % (self.f, t))
            return '(SRaise %s)' % RAISES[t]
        if isinstance(n, ast.Try):
            if n.orelse or n.finalbody or not n.handlers:
                raise Bad('%s: try with else/finally' % self.f)
            hs = 'HNil'
            for h in reversed(n.handlers):
                if h.type is None or U(h.type) not in XCLS:
                    raise Bad('%s: except clause not classified: %s' % (self.f, U(h.type) if h.type else 'bare'))
                hs = '(HCons %s %s %s)' % (XCLS[U(h.type)], self.block(h.body), hs)
            return '(STry %s %s)' % (self.block(n.body), hs)
        if isinstance(n, ast.With):
            if len(n.items) != 1 or U(n.items[0].context_expr) != 'self.lock' or n.items[0].optional_vars is not None:
                raise Bad('%s: with statement not classified' % self.f)
            return '(SWith %s)' % self.block(n.body)
        raise Bad('%s: statement kind %s' % (self.f, type(n).__name__))


def method_skel(cls, name, args):
    fn = find(cls, name)
    if [a.arg for a in fn.args.args] != args or fn.args.vararg or fn.args.kwarg:
        raise Bad('%s: signature' % name)
    w = Walker(name)
    s = w.block(fn.body)
    missing = set(ACTS[name]) - w.used
    if missing:
        raise Bad('%s: actions no longer present: %s' % (name, sorted(missing)))
    return s


# ------------------------------------------------------------------------------ connect(): preparation + main loop
TSPEC = {'106A': 'TsA', '106B': 'TsB', '212F': 'TsF'}
KEEP = {'isinstance(llc, nfc.llcp.llc.LogicalLinkController)': 'KeepIsLlc',
        'targets and all([isinstance(o, RemoteTarget) for o in targets])': 'KeepTruthyAllRemote',
        'isinstance(target, LocalTarget)': 'KeepIsLocalTarget'}
BLOCKVAR = {'llcp_options': ('Llcp', 'llc', 'llc = nfc.llcp.llc.LogicalLinkController(**llcp_options)', 'llc'),
            'rdwr_options': ('Rdwr', 'targets', "targets = [RemoteTarget(brty) for brty in rdwr_options['targets']]", 'targets'),
            'card_options': ('Card', 'target', 'target = nfc.clf.LocalTarget()', 'target')}


def lam(e):
    """lambda x: x -> 'id' ; lambda x: <const> -> const"""
    if not (isinstance(e, ast.Lambda) and len(e.args.args) == 1 and not e.args.vararg and not e.args.kwarg):
        raise Bad('default is not a one-argument lambda: ' + U(e))
    b = e.body
    if isinstance(b, ast.Name) and b.id == e.args.args[0].arg:
        return 'id'
    if isinstance(b, ast.Constant) and (b.value is None or isinstance(b.value, bool)):
        return b.value
    raise Bad('lambda body not classified: ' + U(e))


def on_discover_kernel(fn):
    """if target.sel_res and target.sel_res[0] & 64: return A  elif target.sensf_res and ...[1:3] == b'\\x01\\xfe': return B  else: return C"""
    body = strip(fn.body)
    if len(body) != 1 or not isinstance(body[0], ast.If):
        raise Bad('on_discover: shape')
    i1 = body[0]
    if U(i1.test) != 'target.sel_res and target.sel_res[0] & 64' or len(i1.orelse) != 1 or not isinstance(i1.orelse[0], ast.If):
        raise Bad('on_discover: first test ' + U(i1.test))
    i2 = i1.orelse[0]
    if U(i2.test) != "target.sensf_res and target.sensf_res[1:3] == b'\\x01\\xfe'":
        raise Bad('on_discover: second test ' + U(i2.test))

    def ret(b):
        b = strip(b)
        if len(b) != 1 or not isinstance(b[0], ast.Return) or not isinstance(b[0].value, ast.Constant) or not isinstance(b[0].value.value, bool):
            raise Bad('on_discover: branch')
        return str(b[0].value.value).lower()
    return ('Definition gen_on_discover (sel_res_dep sensf_res_dep : bool) : bool :=\n'
            '  if sel_res_dep then %s else if sensf_res_dep then %s else %s.\n' % (ret(i1.body), ret(i2.body), ret(i2.orelse)))


def prep_block(n, extra):
    """if X_options is not None: X = dict(X); X.setdefault(..)*; obj = ..; obj = X['on-startup'](obj);
       if <keep>: X[key] = obj  else: X = None"""
    if not (isinstance(n.test, ast.Compare) and len(n.test.ops) == 1 and isinstance(n.test.ops[0], ast.IsNot) and
            isinstance(n.test.left, ast.Name) and U(n.test.comparators[0]) == 'None') or n.orelse:
        raise Bad('connect: preparation block test ' + U(n.test))
    var = n.test.left.id
    if var not in BLOCKVAR:
        raise Bad('connect: preparation of ' + var)
    blk, obj, ctor, _ = BLOCKVAR[var]
    body = strip(n.body)
    defaults = {}
    stage = 0
    keep = None
    for st in body:
        t = U(st)
        if isinstance(st, ast.FunctionDef):
            if st.name != 'on_discover' or blk != 'Rdwr':
                raise Bad('connect: nested function ' + st.name)
            extra['on_discover'] = on_discover_kernel(st)
        elif t == '%s = dict(%s)' % (var, var) and stage == 0:
            stage = 1
        elif (isinstance(st, ast.Expr) and isinstance(st.value, ast.Call) and U(st.value.func) == var + '.setdefault' and
              len(st.value.args) == 2 and isinstance(st.value.args[0], ast.Constant) and stage == 1):
            key = st.value.args[0].value
            if key in defaults:
                raise Bad('connect: default %s set twice' % key)
            defaults[key] = st.value.args[1]
        elif t == ctor and stage == 1:
            stage = 2
        elif t == "%s = %s['on-startup'](%s)" % (obj, var, obj) and stage == 2:
            stage = 3
        elif isinstance(st, ast.If) and stage == 3:
            if U(st.test) not in KEEP:
                raise Bad('connect: test after on-startup of %s not classified: %s' % (var, U(st.test)))
            keep = KEEP[U(st.test)]
            yes, no = strip(st.body), strip(st.orelse)
            if len(yes) != 1 or not (isinstance(yes[0], ast.Assign) and U(yes[0].targets[0]).startswith(var + '[') and U(yes[0].value) == obj):
                raise Bad('connect: keep branch of ' + var)
            if len(no) != 1 or U(no[0]) != var + ' = None':
                raise Bad('connect: drop branch of ' + var)
            stage = 4
        else:
            raise Bad('connect: statement in preparation of %s not classified (stage %d): %s' % (var, stage, t.split('\n')[0]))
    if stage != 4:
        raise Bad('connect: preparation of %s incomplete' % var)
    if 'on-startup' not in defaults:
        raise Bad('connect: no default on-startup for ' + var)
    su = lam(defaults.pop('on-startup'))
    if su == 'id':
        dflt = 'DfltIdentity'
    elif su is None:
        dflt = 'DfltNone'
    else:
        raise Bad('connect: default on-startup of ' + var)
    cbs = []
    for key, k in (('on-discover', 'KDiscover'), ('on-connect', 'KConnect'), ('on-release', 'KRelease')):
        if key in defaults:
            v = defaults.pop(key)
            if isinstance(v, ast.Name) and v.id == 'on_discover' and key == 'on-discover' and blk == 'Rdwr':
                continue
            b = lam(v)
            if not isinstance(b, bool):
                raise Bad('connect: default %s of %s' % (key, var))
            cbs.append('(%s, %s)' % (k, str(b).lower()))
    if blk == 'Rdwr':
        tg = defaults.pop('targets', None)
        if not (isinstance(tg, ast.List) and all(isinstance(x, ast.Constant) and x.value in TSPEC for x in tg.elts)):
            raise Bad('connect: default targets')
        extra['targets'] = '[' + '; '.join(TSPEC[x.value] for x in tg.elts) + ']'
        it = defaults.pop('iterations', None)
        if not (isinstance(it, ast.Constant) and isinstance(it.value, int) and not isinstance(it.value, bool)):
            raise Bad('connect: default iterations')
        extra['iterations'] = str(it.value)
        iv = defaults.pop('interval', None)
        if not (isinstance(iv, ast.Constant) and isinstance(iv.value, (int, float))):
            raise Bad('connect: default interval')
        bp = defaults.pop('beep-on-connect', None)
        if not (isinstance(bp, ast.Constant) and isinstance(bp.value, bool)):
            raise Bad('connect: default beep-on-connect')
        extra['beep'] = str(bp.value).lower()
        if 'on_discover' not in extra:
            raise Bad('connect: on_discover default missing')
    if defaults:
        raise Bad('connect: unclassified defaults %s of %s' % (sorted(defaults), var))
    return '{| se_blk := %s; se_default := %s; se_keep := %s; se_cb_defaults := [%s] |}' % (blk, dflt, keep, '; '.join(cbs))


def connect_skel(cls):
    fn = find(cls, 'connect')
    if [a.arg for a in fn.args.args] != ['self'] or fn.args.vararg or not fn.args.kwarg or fn.args.kwarg.arg != 'options':
        raise Bad('connect: signature')
    body = strip(fn.body)
    fixed_head = ['if self.device is None:\n    raise IOError(errno.ENODEV, os.strerror(errno.ENODEV))',
                  "terminate = options.get('terminate', lambda: False)",
                  "rdwr_options = options.get('rdwr')", "llcp_options = options.get('llcp')", "card_options = options.get('card')"]
    for want in fixed_head:
        if not body or U(body[0]) != want:
            raise Bad('connect: expected statement %r' % want.split('\n')[0])
        body = body[1:]
    # the argument type test (TypeError for non-dictionaries)
    if not (body and isinstance(body[0], ast.Try) and all(isinstance(x, ast.Assert) for x in body[0].body) and
            len(body[0].handlers) == 1 and U(body[0].handlers[0].type) == 'AssertionError'):
        raise Bad('connect: option type test')
    body = body[1:]
    extra = {}
    entries = []
    while body and isinstance(body[0], ast.If) and isinstance(body[0].test, ast.Compare):
        entries.append(prep_block(body[0], extra))
        body = body[1:]
    if len(entries) != 3:
        raise Bad('connect: %d preparation blocks' % len(entries))
    if not (body and U(body[0]).split('\n')[0] == 'if not (rdwr_options or llcp_options or card_options):' and
            [U(x) for x in strip(body[0].body)] == ['return None'] and not body[0].orelse):
        raise Bad('connect: "no options" test')
    body = body[1:]
    if len(body) != 1 or not isinstance(body[0], ast.Try):
        raise Bad('connect: main loop is not the last statement')
    w = Walker('connect')
    main = w.stmt(body[0])
    missing = set(ACTS['connect']) - w.used
    if missing:
        raise Bad('connect: actions no longer present: %s' % sorted(missing))
    return entries, extra, main


# ------------------------------------------------------------------------------ sense / listen / exchange
def prologue(stmts, kinds):
    out = []
    for n in stmts:
        t = U(n)
        for k, (text, coq) in kinds.items():
            if t == text:
                out.append(coq)
                break
        else:
            raise Bad('prologue statement not classified: ' + t.split('\n')[0])
    return '[' + '; '.join(out) + ']'


DEVCHECK = 'if self.device is None:\n    raise IOError(errno.ENODEV, os.strerror(errno.ENODEV))'
TECH = {'A': 'TechA', 'B': 'TechB', 'F': 'TechF'}


def chain(n):
    """if/elif/.../else -> [(test, body)], else body"""
    out = []
    while True:
        out.append((n.test, n.body))
        if len(n.orelse) == 1 and isinstance(n.orelse[0], ast.If):
            n = n.orelse[0]
        else:
            return out, n.orelse


def device_call_only(fn, name, args):
    b = strip(fn.body)
    if len(b) != 1 or U(b[0]) != 'return self.device.%s(%s)' % (name, args):
        raise Bad('%s: not a plain driver call' % name)


def sense_skel(cls):
    fn = find(cls, 'sense')
    if [a.arg for a in fn.args.args] != ['self'] or fn.args.vararg.arg != 'targets' or fn.args.kwarg.arg != 'options':
        raise Bad('sense: signature')
    body = strip(fn.body)
    nested = {n.name: n for n in body if isinstance(n, ast.FunctionDef)}
    if set(nested) != {'sense_tta', 'sense_ttb', 'sense_ttf', 'sense_dep'}:
        raise Bad('sense: nested functions %s' % sorted(nested))
    device_call_only(nested['sense_ttb'], 'sense_ttb', 'target')
    device_call_only(nested['sense_ttf'], 'sense_ttf', 'target')
    dep = strip(nested['sense_dep'].body)
    want_dep = ["if len(target.atr_req) < 16:\n    raise ValueError('minimum atr_req length is 16 byte')",
                "if len(target.atr_req) > 64:\n    raise ValueError('maximum atr_req length is 64 byte')",
                'return self.device.sense_dep(target)']
    if [U(x) for x in dep] == want_dep:
        dep_checks = 'true'
    elif [U(x) for x in dep] == want_dep[2:]:
        dep_checks = 'false'
    else:
        raise Bad('sense_dep: shape')
    tta = strip(nested['sense_tta'].body)
    sel = "if target.sel_req and len(target.sel_req) not in (4, 7, 10):\n    raise ValueError('sel_req must be 4, 7, or 10 byte')"
    tta_sel = 'false'
    if tta and U(tta[0]) == sel:
        tta_sel = 'true'
        tta = tta[1:]
    if not tta or U(tta[0]) != 'target = self.device.sense_tta(target)' or U(tta[-1]) != 'return target':
        raise Bad('sense_tta: driver call / return')
    mid = tta[1:-1]
    tta_val = 'false'
    if mid:
        first = mid[0]
        if not (isinstance(first, ast.If) and U(first.test) == 'target and len(target.sens_res) != 2' and
                isinstance(strip(first.body)[-1], ast.Raise) and U(strip(first.body)[-1]) == 'raise ProtocolError(error)'):
            raise Bad('sense_tta: SENS_RES validation')
        tta_val = 'true'
        for m in mid[1:]:      # further validation of Type 1 Tag answers: only ProtocolError may be raised
            for x in ast.walk(m):
                if isinstance(x, ast.Raise) and U(x) != 'raise ProtocolError(error)':
                    raise Bad('sense_tta: raise in validation')
                if isinstance(x, ast.Call) and U(x.func).startswith('self.'):
                    raise Bad('sense_tta: call in validation')
    rest = [n for n in body if not isinstance(n, ast.FunctionDef)]
    if len(rest) != 2:
        raise Bad('sense: %d top level statements' % len(rest))
    typecheck = "for target in targets:\n    if not isinstance(target, RemoteTarget):\n        raise ValueError('invalid target argument type: %r' % target)"
    if U(rest[0]) != typecheck:
        raise Bad('sense: argument type test')
    w = rest[1]
    if not (isinstance(w, ast.With) and U(w.items[0].context_expr) == 'self.lock'):
        raise Bad('sense: with self.lock')
    wb = strip(w.body)
    if not wb or not isinstance(wb[-1], ast.For):
        raise Bad('sense: iteration loop is not last')
    pro = prologue(wb[:-1], {'dev': (DEVCHECK, 'StCheckDevice XIOError'), 'forget': ('self.target = None', 'StForget'),
                             'mute': ('self.device.mute()', 'StMute')})
    pro = '[StCheckTypes XValueError; ' + pro[1:]
    loop = wb[-1]
    if U(loop.target) != 'i' or U(loop.iter) != "range(max(1, options.get('iterations', 1)))" or loop.orelse:
        raise Bad('sense: iteration loop header ' + U(loop.iter))
    lb = strip(loop.body)
    if len(lb) != 4 or U(lb[0]) != 'started = time.time()':
        raise Bad('sense: iteration body')
    inner, mute_if, sleep_if = lb[1], lb[2], lb[3]
    if U(mute_if) == 'if len(targets) > 0:\n    self.device.mute()':
        after_mute = 'true'
    else:
        raise Bad('sense: mute after iteration: ' + U(mute_if).split('\n')[0])
    if U(sleep_if) != ("if i < options.get('iterations', 1) - 1:\n    elapsed = time.time() - started\n"
                       "    time.sleep(max(0, options.get('interval', 0.1) - elapsed))"):
        raise Bad('sense: interval statement')
    if not (isinstance(inner, ast.For) and U(inner.target) == 'target' and U(inner.iter) == 'targets' and not inner.orelse):
        raise Bad('sense: target loop')
    ib = strip(inner.body)
    if len(ib) != 1 or not isinstance(ib[0], ast.Try) or ib[0].finalbody:
        raise Bad('sense: try statement')
    tr = ib[0]
    tb = strip(tr.body)
    if len(tb) != 1 or not isinstance(tb[0], ast.If):
        raise Bad('sense: dispatch chain')
    tests, els = chain(tb[0])
    disp = []
    for test, br in tests:
        t = U(test)
        if t == 'target.atr_req is not None':
            st = 'TAtrReqSet'
        elif t.startswith("target.brty.endswith('") and t.endswith("')") and t[len("target.brty.endswith('"):-2] in TECH:
            st = '(TBrtyEndswith %s)' % TECH[t[len("target.brty.endswith('"):-2]]
        else:
            raise Bad('sense: dispatch test ' + t)
        br = strip(br)
        if len(br) != 1 or not U(br[0]).startswith('self.target = sense_') or not U(br[0]).endswith('(target)'):
            raise Bad('sense: dispatch branch ' + U(br[0]))
        d = U(br[0])[len('self.target = sense_'):-len('(target)')]
        if d not in ('tta', 'ttb', 'ttf', 'dep'):
            raise Bad('sense: driver ' + d)
        disp.append('(%s, %s)' % (st, d.capitalize()))
    els = strip(els)
    if [U(x).split('(')[0] for x in els] == ["info = 'unknown technology type in %r'", 'raise UnsupportedTargetError']:
        else_uns = 'true'
    else:
        raise Bad('sense: else branch of dispatch')
    exc = []
    for h in tr.handlers:
        ht = U(h.type)
        hb = strip(h.body)
        if ht == 'UnsupportedTargetError':
            if (len(hb) == 1 and isinstance(hb[0], ast.If) and U(hb[0].test) == 'len(targets) == 1' and
                    [U(x) for x in strip(hb[0].body)] == ['raise error'] and not strip(hb[0].orelse)):
                exc.append('(SxUnsupported, SwUnlessSingle)')
            elif not hb:
                exc.append('(SxUnsupported, SwAlways)')
            else:
                raise Bad('sense: except UnsupportedTargetError body')
        elif ht == 'CommunicationError':
            if hb:
                raise Bad('sense: except CommunicationError body')
            exc.append('(SxCommunication, SwAlways)')
        else:
            raise Bad('sense: except ' + ht)
    eb = strip(tr.orelse)
    if len(eb) == 1 and isinstance(eb[0], ast.If) and U(eb[0].test) == 'self.target is not None' and \
            [U(x) for x in strip(eb[0].body)] == ['return self.target'] and not eb[0].orelse:
        ret_target = 'true'
    else:
        raise Bad('sense: else clause of try')
    return ('Definition gen_sense_skel : sense_skel :=\n'
            '  {| ss_prologue := %s;\n     ss_dispatch := [%s];\n     ss_else_raises_unsupported := %s;\n'
            '     ss_except := [%s];\n     ss_else_returns_target := %s;\n     ss_after_iteration_mute_if_targets := %s;\n'
            '     ss_dep_checks_atr_req := %s; ss_tta_checks_sel_req := %s; ss_tta_validates_sens_res := %s |}.\n'
            '(* range(max(1, options.get(\'iterations\', 1))) *)\n'
            'Definition gen_sense_niter (iters : Z) : Z := Z.max 1 iters.\n'
            'Definition gen_sense_iterations_default : Z := 1.\n'
            % (pro, '; '.join(disp), else_uns, '; '.join(exc), ret_target, after_mute, dep_checks, tta_sel, tta_val))


LBRTY = {"('106A', '212A', '424A')": 'TechA', "('106B', '212B', '424B', '848B')": 'TechB', "('212F', '424F')": 'TechF'}


def listen_skel(cls):
    fn = find(cls, 'listen')
    if [a.arg for a in fn.args.args] != ['self', 'target', 'timeout']:
        raise Bad('listen: signature')
    body = strip(fn.body)
    nested = {n.name: n for n in body if isinstance(n, ast.FunctionDef)}
    if set(nested) != {'listen_tta', 'listen_ttb', 'listen_ttf', 'listen_dep'}:
        raise Bad('listen: nested functions')
    for k in ('tta', 'ttb', 'ttf'):
        device_call_only(nested['listen_' + k], 'listen_' + k, 'target, timeout')
    dep = strip(nested['listen_dep'].body)
    if len(dep) == 2 and U(dep[0]) == 'target = self.device.listen_dep(target, timeout)' and isinstance(dep[1], ast.If) and \
            U(dep[1].test) == 'target and target.atr_req' and not dep[1].orelse:
        tr = strip(dep[1].body)
        if not (len(tr) == 1 and isinstance(tr[0], ast.Try) and
                [U(x).split(',')[0] for x in tr[0].body] == ['assert len(target.atr_req) >= 16', 'assert len(target.atr_req) <= 64', 'return target'] and
                len(tr[0].handlers) == 1 and U(tr[0].handlers[0].type) == 'AssertionError' and not strip(tr[0].handlers[0].body)):
            raise Bad('listen_dep: ATR_REQ length test')
        drops = 'true'
    else:
        raise Bad('listen_dep: shape')
    rest = [n for n in body if not isinstance(n, ast.FunctionDef)]
    if len(rest) != 2 or not U(rest[0]).startswith('assert isinstance(target, LocalTarget),'):
        raise Bad('listen: argument type test')
    w = rest[1]
    if not (isinstance(w, ast.With) and U(w.items[0].context_expr) == 'self.lock'):
        raise Bad('listen: with self.lock')
    wb = strip(w.body)
    # prologue up to the dispatch chain
    idx = [i for i, n in enumerate(wb) if isinstance(n, ast.If) and U(n.test) != 'self.device is None']
    if len(idx) != 1 or idx[0] != len(wb) - 2 or U(wb[-1]) != 'return self.target':
        raise Bad('listen: dispatch chain / return')
    pre = [n for n in wb[:idx[0]] if U(n) != "info = 'listen %.3f seconds for %s'"]
    pro = prologue(pre, {'dev': (DEVCHECK, 'StCheckDevice XIOError'), 'forget': ('self.target = None', 'StForget'),
                         'mute': ('self.device.mute()', 'StMute')})
    pro = '[StCheckLocal XAssertion; ' + pro[1:]
    tests, els = chain(wb[idx[0]])
    disp = []
    for test, br in tests:
        t = U(test)
        if t == 'target.atr_res is not None':
            st = 'TAtrResSet'
        elif t.startswith('target.brty in ') and t[len('target.brty in '):] in LBRTY:
            st = '(TBrtyIn %s)' % LBRTY[t[len('target.brty in '):]]
        else:
            raise Bad('listen: dispatch test ' + t)
        br = strip(br)
        if len(br) != 1 or not U(br[0]).startswith('self.target = listen_') or not U(br[0]).endswith('(target, timeout)'):
            raise Bad('listen: dispatch branch')
        d = U(br[0])[len('self.target = listen_'):-len('(target, timeout)')]
        if d not in ('tta', 'ttb', 'ttf', 'dep'):
            raise Bad('listen: driver ' + d)
        disp.append('(%s, %s)' % (st, d.capitalize()))
    els = strip(els)
    if not (len(els) == 2 and isinstance(els[0], ast.Assign) and U(els[1]) == 'raise ValueError(errmsg.format(target.brty))'):
        raise Bad('listen: else branch')
    return ('Definition gen_listen_skel : listen_skel :=\n'
            '  {| ls_prologue := %s;\n     ls_dispatch := [%s];\n'
            '     ls_else_raises := XValueError; ls_returns_target := true; ls_dep_drops_bad_atr_req := %s |}.\n'
            % (pro, '; '.join(disp), drops))


def exchange_skel(cls):
    fn = find(cls, 'exchange')
    if [a.arg for a in fn.args.args] != ['self', 'send_data', 'timeout']:
        raise Bad('exchange: signature')
    body = strip(fn.body)
    if len(body) != 1 or not (isinstance(body[0], ast.With) and U(body[0].items[0].context_expr) == 'self.lock'):
        raise Bad('exchange: with self.lock')
    wb = strip(body[0].body)
    idx = [i for i, n in enumerate(wb) if isinstance(n, ast.If) and U(n.test) != 'self.device is None']
    if len(idx) != 1:
        raise Bad('exchange: dispatch chain')
    pro = prologue(wb[:idx[0]], {'dev': (DEVCHECK, 'StCheckDevice XIOError')})
    tests, els = chain(wb[idx[0]])
    disp = []
    for test, br in tests:
        t = U(test)
        kind = {'isinstance(self.target, RemoteTarget)': 'IsRemote', 'isinstance(self.target, LocalTarget)': 'IsLocal'}.get(t)
        b = [U(x) for x in strip(br)]
        d = {('exchange = self.device.send_cmd_recv_rsp',): 'DirCmd', ('exchange = self.device.send_rsp_recv_cmd',): 'DirRsp'}.get(tuple(b))
        if kind is None or d is None:
            raise Bad('exchange: dispatch ' + t)
        disp.append('(%s, %s)' % (kind, d))
    if [U(x) for x in strip(els)] != ['return None']:
        raise Bad('exchange: else branch')
    tail = [U(x) for x in wb[idx[0] + 1:]]
    if tail != ['send_time = time.time()', 'rcvd_data = exchange(self.target, send_data, timeout)',
                'recv_time = time.time() - send_time', 'return rcvd_data']:
        raise Bad('exchange: tail')
    return ('Definition gen_exchange_skel : exchange_skel :=\n'
            '  {| xs_prologue := %s; xs_dispatch := [%s]; xs_else_returns_none := true |}.\n' % (pro, '; '.join(disp)))


# ------------------------------------------------------------------------------ output
def generate(repo):
    tree = ast.parse(open(os.path.join(repo, SOURCE)).read())
    cls = find(tree, CLASS)
    rdwr = method_skel(cls, '_rdwr_connect', ['self', 'options', 'terminate'])
    llcp = method_skel(cls, '_llcp_connect', ['self', 'options', 'terminate'])
    card = method_skel(cls, '_card_connect', ['self', 'options', 'terminate'])
    entries, extra, main = connect_skel(cls)
    out = ['(* GENERATED by translate/kspec_c18.py from %s - do not edit *)' % SOURCE,
           'From Coq Require Import ZArith List Bool.',
           'From NV Require Import Model.Connect Skel.ConnectSyntax.',
           'Import ListNotations.',
           'Definition gen_rdwr_connect : stmt :=\n  %s.' % rdwr,
           'Definition gen_llcp_connect : stmt :=\n  %s.' % llcp,
           'Definition gen_card_connect : stmt :=\n  %s.' % card,
           'Definition gen_main_loop : stmt :=\n  %s.' % main,
           'Definition gen_startup : list startup_entry :=\n  [ %s ].' % ';\n    '.join(entries),
           'Definition gen_default_targets : list tspec := %s.' % extra['targets'],
           'Definition gen_default_iterations : Z := %s.' % extra['iterations'],
           'Definition gen_default_beep : bool := %s.' % extra['beep'],
           extra['on_discover'].rstrip('\n'),
           sense_skel(cls).rstrip('\n'),
           listen_skel(cls).rstrip('\n'),
           exchange_skel(cls).rstrip('\n')]
    return '\n'.join(out) + '\n'


generate.SOURCE = SOURCE
KERNELS = {'ConnectSkel': generate}
