"""C12 kernel tie: the pure arithmetic of src/nfc/tag/tt4.py is regenerated on every run as Gallina
(coq/Gen/IsoDepK.v); coq/Bridge/IsoDep.v proves the generated functions equal to the definitions and
predicates of Model/IsoDep.v (and to the repaired ATS parse of Model/TagAct.v).

  IsoDepInitiator.__init__      self.miu = .., self.n_retry_ack = .., self.n_retry_nak = ..
  Type4ATag.__init__            the WHOLE constructor body as one function
  Type4BTag.__init__              (max_send, max_recv, answer) -> None (ProtocolError raised)
                                  | Some (command sent, fsc, fwt) = the arguments of IsoDepInitiator(clf, fsc, fwt)
  IsoDepInitiator.exchange      every expression that decides or builds a block: more, pfb, the I-block,
                                R(NAK)/R(ACK) blocks, the S(WTX) / retransmit / block number / ACK / INF /
                                chaining tests, the retry conditions, the block number toggle, the response
                                accumulation, the errno of each except clause.  The control skeleton of
                                exchange is matched statement by statement while the expressions are cut
                                out; any change of shape raises (fail closed).
  nfc.tag                       TIMEOUT_ERROR, RECEIVE_ERROR, PROTOCOL_ERROR
  (since b65ae89) the shared budget: self.max_extra_blocks, n_extra = 0, the three `n_extra += 1` and the three
                                `n_extra > self.max_extra_blocks` tests (two WTX loops, the chaining while)

Float arithmetic (FWT = 4096 / 13.56E6 * 2**FWI, int(1/fwt)) is translated to exact rationals (Coq Q,
Qfloor); that Python's double rounding does not change int(1/fwt) for FWI 0..14 is checked by the
correspondence run over every FWI, not by the bridge.  Timeouts (self.delta_fwt, timeout = self.fwt +
self.delta_fwt, wtx_timeout = (data[1] & 0x3F) * self.fwt) are translated as rationals too; the bridge ties
wtx_timeout to the model's blk_timeout (the multiple of fwt granted with an S(WTX) response).

  E ::= int | float with integral value | v | self.a | self.clf.a | target.a | x[k] | x[a:b] | x[a:] | len(E)
      | E + E | E - E | E * E | E % E | E & E | E | E | E >> E | ~E | E / E | k ** E | E cmp E | E and E
      | bool(E) | int(E) | min(E, E) | pack('B', E) | bytearray([E]) | bytearray(E) | b'..'
      | bytearray.fromhex('..') | (k0, k1)[bool] | (k0, .., kn)[E] | E if C else E
Types: Z, bool, list Z (bytes), Q.
"""
import ast
import os

TT4 = 'src/nfc/tag/tt4.py'
TAG = 'src/nfc/tag/__init__.py'


class Bad(Exception):
    pass


def find(tree, qual):
    node = tree
    for part in qual.split('.'):
        for ch in ast.iter_child_nodes(node):
            if isinstance(ch, (ast.FunctionDef, ast.ClassDef)) and ch.name == part:
                node = ch
                break
        else:
            raise Bad('%s not found' % qual)
    return node


Z, B, L, Q = 'Z', 'bool', 'list Z', 'Q'


def zlit(v):
    return str(v) if v >= 0 else '(%d)' % v


class Tr(object):
    """typed expression translator; variables are looked up in self.env: python text -> (coq name, type)"""

    def __init__(self, env):
        self.env = dict(env)
        self.used = []

    def var(self, e):
        key = ast.unparse(e)
        if key in self.env:
            n, t = self.env[key]
            if n not in self.used:
                self.used.append(n)
            return n, t
        return None

    def toq(self, x):
        s, t = x
        if t == Q:
            return s
        if t == Z:
            return '(inject_Z %s)' % s
        raise Bad('cannot use %s as a number' % t)

    def truth(self, x):
        s, t = x
        if t == B:
            return s
        if t == Z:
            return '(negb (%s =? 0))' % s
        if t == L:
            return '(match %s with nil => false | _ => true end)' % s
        raise Bad('truth of %s' % t)

    def expr(self, e):
        v = self.var(e)
        if v is not None:
            return v
        if isinstance(e, ast.Constant):
            if isinstance(e.value, bool):
                return ('true' if e.value else 'false'), B
            if isinstance(e.value, int):
                return zlit(e.value), Z
            if isinstance(e.value, float):
                if not e.value.is_integer():
                    raise Bad('non integral float %r' % e.value)
                return zlit(int(e.value)), Z
            if isinstance(e.value, bytes):
                return '[' + '; '.join(str(b) for b in e.value) + ']', L
            raise Bad('constant %r' % (e.value,))
        if isinstance(e, ast.BinOp):
            a, b = self.expr(e.left), self.expr(e.right)
            op = type(e.op)
            if op is ast.Add and a[1] == L and b[1] == L:
                return '(%s ++ %s)' % (a[0], b[0]), L
            if op is ast.Div:
                return '(Qdiv %s %s)' % (self.toq(a), self.toq(b)), Q
            if op is ast.Pow:
                if a[1] == Z and b[1] == Z and isinstance(e.left, ast.Constant):
                    return '(Z.pow %s %s)' % (a[0], b[0]), Z
                raise Bad('power with non constant base')
            if Q in (a[1], b[1]):
                if op is ast.Mult:
                    return '(Qmult %s %s)' % (self.toq(a), self.toq(b)), Q
                if op is ast.Add:
                    return '(Qplus %s %s)' % (self.toq(a), self.toq(b)), Q
                raise Bad('rational operator ' + op.__name__)
            zops = {ast.Add: 'Z.add', ast.Sub: 'Z.sub', ast.Mult: 'Z.mul', ast.Mod: 'Z.modulo', ast.BitAnd: 'Z.land',
                    ast.BitOr: 'Z.lor', ast.RShift: 'Z.shiftr', ast.LShift: 'Z.shiftl', ast.FloorDiv: 'Z.div'}
            if a[1] == Z and b[1] == Z and op in zops:
                return '(%s %s %s)' % (zops[op], a[0], b[0]), Z
            raise Bad('operator %s on %s, %s' % (op.__name__, a[1], b[1]))
        if isinstance(e, ast.UnaryOp) and isinstance(e.op, ast.Invert):
            a = self.expr(e.operand)
            if a[1] != Z:
                raise Bad('~ on ' + a[1])
            return '(Z.lnot %s)' % a[0], Z
        if isinstance(e, ast.Compare):
            if len(e.ops) != 1:
                raise Bad('chained comparison')
            a, b = self.expr(e.left), self.expr(e.comparators[0])
            if a[1] != Z or b[1] != Z:
                raise Bad('comparison on %s, %s' % (a[1], b[1]))
            cmp = {ast.Eq: '(%s =? %s)', ast.NotEq: '(negb (%s =? %s))', ast.Lt: '(%s <? %s)', ast.LtE: '(%s <=? %s)',
                   ast.Gt: '(%s >? %s)', ast.GtE: '(%s >=? %s)'}
            if type(e.ops[0]) not in cmp:
                raise Bad('comparison ' + type(e.ops[0]).__name__)
            return cmp[type(e.ops[0])] % (a[0], b[0]), B
        if isinstance(e, ast.BoolOp) and isinstance(e.op, ast.And):
            return '(' + ' && '.join(self.truth(self.expr(v)) for v in e.values) + ')', B
        if isinstance(e, ast.IfExp):
            c = self.truth(self.expr(e.test))
            a, b = self.expr(e.body), self.expr(e.orelse)
            if a[1] != b[1]:
                raise Bad('conditional expression with different types')
            return '(if %s then %s else %s)' % (c, a[0], b[0]), a[1]
        if isinstance(e, ast.Subscript):
            if isinstance(e.value, ast.Tuple):
                ks = []
                for kx in e.value.elts:
                    if not (isinstance(kx, ast.Constant) and isinstance(kx.value, int) and not isinstance(kx.value, bool)):
                        raise Bad('non constant tuple')
                    ks.append(zlit(kx.value))
                i = self.expr(e.slice)
                if i[1] == B and len(ks) == 2:
                    return '(if %s then %s else %s)' % (i[0], ks[1], ks[0]), Z
                if i[1] == Z:
                    return '(nth (Z.to_nat %s) [%s] 0)' % (i[0], '; '.join(ks)), Z
                raise Bad('tuple index of type ' + i[1])
            x = self.expr(e.value)
            if x[1] != L:
                raise Bad('subscript of ' + x[1])
            if isinstance(e.slice, ast.Slice):
                if e.slice.step is not None:
                    raise Bad('slice step')
                lo = self.expr(e.slice.lower) if e.slice.lower is not None else ('0', Z)
                if lo[1] != Z:
                    raise Bad('slice bound')
                if e.slice.upper is None:
                    return '(drop %s %s)' % (lo[0], x[0]), L
                hi = self.expr(e.slice.upper)
                if hi[1] != Z:
                    raise Bad('slice bound')
                return '(slice %s %s %s)' % (x[0], lo[0], hi[0]), L
            i = self.expr(e.slice)
            if i[1] != Z:
                raise Bad('index of type ' + i[1])
            return '(nth (Z.to_nat %s) %s 0)' % (i[0], x[0]), Z      # the code guards every index by a length test
        if isinstance(e, ast.Call):
            f = ast.unparse(e.func)
            if e.keywords:
                raise Bad('keyword arguments')
            if f == 'len' and len(e.args) == 1:
                x = self.expr(e.args[0])
                if x[1] != L:
                    raise Bad('len of ' + x[1])
                return '(len %s)' % x[0], Z
            if f == 'bool' and len(e.args) == 1:
                return self.truth(self.expr(e.args[0])), B
            if f == 'int' and len(e.args) == 1:
                x = self.expr(e.args[0])
                if x[1] == Q:
                    return '(Qfloor %s)' % x[0], Z      # positive operand: int() truncates = floor
                raise Bad('int() of ' + x[1])
            if f == 'min' and len(e.args) == 2:
                a, b = self.expr(e.args[0]), self.expr(e.args[1])
                if a[1] == Z and b[1] == Z:
                    return '(Z.min %s %s)' % (a[0], b[0]), Z
                raise Bad('min on %s, %s' % (a[1], b[1]))
            if f == 'pack' and len(e.args) == 2 and isinstance(e.args[0], ast.Constant) and e.args[0].value == 'B':
                x = self.expr(e.args[1])
                if x[1] != Z:
                    raise Bad('pack of ' + x[1])
                return '[%s]' % x[0], L
            if f in ('bytearray', 'bytes') and len(e.args) == 1:
                if isinstance(e.args[0], ast.List):
                    xs = [self.expr(a) for a in e.args[0].elts]
                    if any(t != Z for _, t in xs):
                        raise Bad('bytearray of non ints')
                    return '[' + '; '.join(s for s, _ in xs) + ']', L
                x = self.expr(e.args[0])
                if x[1] != L:
                    raise Bad('bytearray of ' + x[1])
                return x
            if f in ('bytearray.fromhex', 'bytes.fromhex') and len(e.args) == 1 and isinstance(e.args[0], ast.Constant) \
                    and isinstance(e.args[0].value, str):
                return '[' + '; '.join(str(b) for b in bytes.fromhex(e.args[0].value)) + ']', L
            raise Bad('call ' + f)
        raise Bad('expression ' + ast.dump(e)[:80])


def define(name, args, body, ty):
    return 'Definition %s %s : %s :=\n  %s.\n' % (name, ' '.join('(%s : %s)' % a for a in args), ty, body)


def kernel(name, e, args, env, want=None):
    """one expression kernel; args: [(coq name, type)] in order, env: python text -> coq name"""
    types = dict(args)
    tr = Tr({k: (v, types[v]) for k, v in env.items() if v in types})
    s, t = tr.expr(e)
    if want is not None and t != want:
        raise Bad('%s has type %s, expected %s' % (name, t, want))
    return define(name, args, s, t)


# ------------------------------------------------------------------ straight-line blocks with if / raise
def is_log(s):
    return isinstance(s, ast.Expr) and isinstance(s.value, ast.Call) and ast.unparse(s.value.func) in (
        'log.debug', 'log.warning', 'log.error', 'log.info')


def assigned(stmts, skip):
    out = []
    for s in stmts:
        if isinstance(s, ast.Assign):
            for t in s.targets:
                for n in (t.elts if isinstance(t, ast.Tuple) else [t]):
                    k = ast.unparse(n)
                    if k not in skip and k not in out:
                        out.append(k)
        elif isinstance(s, ast.If):
            for k in assigned(s.body, skip) + assigned(s.orelse, skip):
                if k not in out:
                    out.append(k)
    return out


class Block(object):
    """statements -> Coq text of type option T.  self.env: python text of a variable -> (coq name, type)"""

    def __init__(self, env, skip_targets, is_final, inputs):
        self.env = dict(env)
        self.skip = skip_targets      # assignment targets that are ignored (with their value)
        self.is_final = is_final      # statement -> Coq text of the result tuple, or None
        self.inputs = inputs          # python text of a call -> (variable python name, coq name, type): `x = <call>` binds an input
        self.fresh = 0

    def coqname(self, key):
        return 'v_' + key.replace('self.', '').replace('.', '_').lstrip('_')

    def block(self, stmts, env, tail):
        """tail(env) -> Coq text for what follows the statements"""
        if not stmts:
            return tail(env)
        s, rest = stmts[0], stmts[1:]
        if is_log(s):
            return self.block(rest, env, tail)
        fin = self.is_final(s, env)
        if fin is not None:
            for r in rest:
                if not (isinstance(r, ast.Assign) and ast.unparse(r.targets[0]) in self.skip):
                    raise Bad('statement after the result: ' + ast.unparse(r)[:60])
            return 'Some %s' % fin
        if isinstance(s, ast.Expr) and ast.unparse(s.value).startswith('super('):
            return self.block(rest, env, tail)
        if isinstance(s, ast.Raise):
            if ast.unparse(s.exc).split('(')[0] != 'nfc.clf.ProtocolError':
                raise Bad('raise of ' + ast.unparse(s.exc)[:40])
            return 'None'
        if isinstance(s, ast.Assign) and len(s.targets) == 1:
            tgt = s.targets[0]
            key = ast.unparse(tgt)
            call = ast.unparse(s.value)
            if key in self.skip:
                return self.block(rest, env, tail)
            for pat, (coq, ty) in self.inputs.items():
                if call.startswith(pat):
                    env2 = dict(env)
                    env2[key] = (coq, ty)
                    return self.block(rest, env2, tail)
            tr = Tr(env)
            if isinstance(tgt, ast.Tuple):
                if not (isinstance(s.value, ast.Tuple) and len(s.value.elts) == len(tgt.elts)):
                    raise Bad('tuple assignment')
                vals = [tr.expr(v) for v in s.value.elts]
                names = [ast.unparse(t) for t in tgt.elts]
            else:
                vals = [tr.expr(s.value)]
                names = [key]
            env2 = dict(env)
            lets = []
            for n, (txt, ty) in zip(names, vals):
                if not all(c.isalnum() or c in '_.' for c in n):
                    raise Bad('assignment target ' + n)
                env2[n] = (self.coqname(n), ty)
                lets.append('let %s := %s in' % (self.coqname(n), txt))
            return '\n  '.join(lets) + '\n  ' + self.block(rest, env2, tail)
        if isinstance(s, ast.If):
            tr = Tr(env)
            c = tr.truth(tr.expr(s.test))
            ab, ao = assigned(s.body, self.skip), assigned(s.orelse, self.skip)
            # variables visible after the if: defined before, or assigned on both paths; anything else is local to
            # its branch (a later use is an unknown name and fails the translation)
            vs = [k for k in ab + [x for x in ao if x not in ab] if k in env or (k in ab and k in ao)]
            holder = {}

            def tup(e2):
                for k in vs:
                    holder.setdefault(k, e2[k][1])
                    if holder[k] != e2[k][1]:
                        raise Bad('%s changes type' % k)
                return 'Some (%s)' % ', '.join(e2[k][0] for k in vs) if vs else 'Some tt'
            a = self.block(s.body, env, tup)
            b = self.block(s.orelse, env, tup)
            env2 = dict(env)
            for k in vs:
                env2[k] = (self.coqname(k), holder[k])
            pat = "(%s)" % ', '.join(self.coqname(k) for k in vs) if len(vs) > 1 else (self.coqname(vs[0]) if vs else '_')
            return ('match (if %s then\n  %s\n  else\n  %s) with\n  | None => None\n  | Some %s =>\n  %s\n  end'
                    % (c, a, b, pat, self.block(rest, env2, tail)))
        raise Bad('statement ' + ast.unparse(s)[:60])


def init_kernel(name, fn, answer_call, answer_var, extra_env, extra_args, skip):
    """Type4ATag / Type4BTag constructor -> (max_send max_recv answer) -> option (command, fsc, fwt)"""
    env = {'self.clf.max_send_data_size': ('v_max_send', Z), 'self.clf.max_recv_data_size': ('v_max_recv', Z)}
    env.update(extra_env)
    cmd = {}

    def is_final(s, e):
        if isinstance(s, ast.Assign) and ast.unparse(s.targets[0]) == 'self._dep':
            if ast.unparse(s.value) != 'IsoDepInitiator(clf, fsc, fwt)':
                raise Bad('self._dep = ' + ast.unparse(s.value))
            if 'cmd' not in cmd:
                raise Bad('no activation command was sent')
            if e['fsc'][1] != Z or e['fwt'][1] != Q or e[cmd['cmd']][1] != L:
                raise Bad('types of the constructor arguments')
            return '(%s, %s, %s)' % (e[cmd['cmd']][0], e['fsc'][0], e['fwt'][0])
        return None

    class Blk(Block):
        def block(self, stmts, env_, tail):
            if stmts and isinstance(stmts[0], ast.Assign) and ast.unparse(stmts[0].value).startswith('self.clf.exchange('):
                call = stmts[0].value
                if len(call.args) != 1 or not isinstance(call.args[0], ast.Name) or [k.arg for k in call.keywords] != ['timeout']:
                    raise Bad('activation exchange ' + ast.unparse(call))
                cmd['cmd'] = call.args[0].id
            return Block.block(self, stmts, env_, tail)

    blk = Blk(env, skip, is_final, {answer_call: (answer_var, L)})
    body = [s for s in fn.body if not (isinstance(s, ast.Expr) and isinstance(s.value, ast.Constant))]

    def no_tail(e):
        raise Bad('constructor ends without creating the IsoDepInitiator')
    text = blk.block(body, env, no_tail)
    args = [('v_max_send', Z), ('v_max_recv', Z)] + extra_args
    return define(name, args, text, 'option (list Z * Z * Q)')


# ------------------------------------------------------------------ IsoDepInitiator.exchange: skeleton + kernels
def want(cond, what):
    if not cond:
        raise Bad('exchange: unexpected shape at ' + what)


def strip_logs(stmts):
    return [s for s in stmts if not is_log(s)]


def raises(s, errno):
    return isinstance(s, ast.Raise) and ast.unparse(s.exc) == 'Type4TagCommandError(nfc.tag.%s)' % errno


def raises_clf(s, cls):
    return isinstance(s, ast.Raise) and ast.unparse(s.exc).split('(')[0] == 'nfc.clf.' + cls


def is_exchange(s, timeout):
    return isinstance(s, ast.Assign) and ast.unparse(s.targets[0]) == 'data' and \
        ast.unparse(s.value) == 'self.clf.exchange(data, %s)' % timeout


ENV = {'self.fwt': 'fwt', 'self.delta_fwt': 'delta_fwt', 'self.pni': 'pni', 'self.miu': 'miu', 'self.n_retry_nak': 'n_retry_nak', 'self.n_retry_ack': 'n_retry_ack',
       'command': 'command', 'n_extra': 'n_extra', 'self.max_extra_blocks': 'max_extra_blocks', 'offset': 'offset', 'more': 'more', 'pfb': 'pfb', 'data': 'data', 'i': 'i', 'response': 'response'}


def exchange_kernels(fn, consts):
    out = []

    def k(name, e, args, ty=None):
        out.append(kernel(name, e, args, ENV, ty))

    def extra(inc, test, where, is_raise):
        """n_extra += 1 ; if n_extra > self.max_extra_blocks: raise"""
        want(isinstance(inc, ast.AugAssign) and ast.unparse(inc.target) == 'n_extra' and isinstance(inc.op, ast.Add), where + ' n_extra += ..')
        out.append(kernel('gen_%s_extra_incr' % where, ast.BinOp(left=inc.target, op=ast.Add(), right=inc.value), [('n_extra', Z)], ENV, Z))
        tb = strip_logs(test.body) if isinstance(test, ast.If) else []
        want(isinstance(test, ast.If) and not test.orelse and len(tb) == 1 and is_raise(tb[0]), where + ' budget test')
        k('gen_%s_extra_over' % where, test.test, [('n_extra', Z), ('max_extra_blocks', Z)], B)

    def try_loop(stmt, where, retry_attr, retry_block_name, retransmit):
        """for i in itertools.count(start=1): try: <exchange, WTX loop, [retransmit], break> except ..."""
        want(isinstance(stmt, ast.For) and ast.unparse(stmt.target) == 'i' and
             ast.unparse(stmt.iter) == 'itertools.count(start=1)' and not stmt.orelse, where + ' for-i')
        want(len(stmt.body) == 1 and isinstance(stmt.body[0], ast.Try), where + ' try')
        t = stmt.body[0]
        want(not t.orelse and not t.finalbody, where + ' try clauses')
        b = strip_logs(t.body)
        want(len(b) == (5 if retransmit else 4), where + ' try body')
        want(is_exchange(b[0], 'timeout'), where + ' exchange')
        want(isinstance(b[1], ast.If) and not b[1].orelse and len(b[1].body) == 1 and raises_clf(b[1].body[0], 'TransmissionError'),
             where + ' empty answer')
        k('gen_%s_empty' % where, b[1].test, [('data', L)], B)
        w = b[2]
        want(isinstance(w, ast.While) and not w.orelse, where + ' WTX loop')
        k('gen_%s_is_wtx' % where, w.test, [('data', L)], B)
        wb = strip_logs(w.body)
        want(len(wb) == 6, where + ' WTX body')
        want(isinstance(wb[0], ast.If) and not wb[0].orelse and len(wb[0].body) == 1 and raises_clf(wb[0].body[0], 'ProtocolError'),
             where + ' WTXM test')
        k('gen_%s_wtx_short' % where, wb[0].test, [('data', L)], B)
        extra(wb[1], wb[2], where, lambda s_: raises_clf(s_, 'ProtocolError'))
        want(isinstance(wb[3], ast.Assign) and ast.unparse(wb[3].targets[0]) == 'wtx_timeout', where + ' wtx_timeout')
        k('gen_%s_wtx_timeout' % where, wb[3].value, [('data', L), ('fwt', Q)], Q)
        want(is_exchange(wb[4], 'wtx_timeout'), where + ' WTX exchange (the S(WTX) block is echoed)')
        want(isinstance(wb[5], ast.If) and not wb[5].orelse and len(wb[5].body) == 1 and
             raises_clf(wb[5].body[0], 'TransmissionError') and ast.unparse(wb[5].test) == ast.unparse(b[1].test),
             where + ' empty answer in WTX loop')
        if retransmit:
            r = b[3]
            want(isinstance(r, ast.If) and not r.orelse, where + ' retransmit')
            k('gen_retransmit', r.test, [('data', L), ('pni', Z), ('i', Z), ('n_retry_nak', Z)], B)
            rb = strip_logs(r.body)
            want(len(rb) == 2 and isinstance(rb[0], ast.Assign) and ast.unparse(rb[0].targets[0]) == 'data' and
                 isinstance(rb[1], ast.Continue), where + ' retransmit body')
            k('gen_retransmit_data', rb[0].value, [('pfb', L), ('command', L), ('offset', Z), ('miu', Z)], L)
        want(isinstance(b[-1], ast.Break), where + ' break')
        hs = t.handlers
        want([ast.unparse(h.type) for h in hs] == ['nfc.clf.TransmissionError', 'nfc.clf.TimeoutError', 'nfc.clf.ProtocolError'],
             where + ' handlers')
        for h, tag, errno in ((hs[0], 'txerr', 'RECEIVE_ERROR'), (hs[1], 'timeout', 'TIMEOUT_ERROR')):
            hb = strip_logs(h.body)
            want(len(hb) == 1 and isinstance(hb[0], ast.If), where + ' handler ' + tag)
            k('gen_%s_retry_%s' % (where, tag), hb[0].test, [('i', Z), (retry_attr, Z)], B)
            yes, no = strip_logs(hb[0].body), strip_logs(hb[0].orelse)
            want(len(yes) == 1 and isinstance(yes[0], ast.Assign) and ast.unparse(yes[0].targets[0]) == 'data', where + ' retry block')
            k('gen_%s_%s_%s' % (where, retry_block_name, tag), yes[0].value, [('pni', Z)], L)
            want(len(no) == 1 and raises(no[0], errno), where + ' errno ' + tag)
            out.append(define('gen_%s_errno_%s' % (where, tag), [], zlit(consts[errno]), Z))
        hb = strip_logs(hs[2].body)
        want(len(hb) == 1 and raises(hb[0], 'PROTOCOL_ERROR'), where + ' handler protocol')
        out.append(define('gen_%s_errno_proto' % where, [], zlit(consts['PROTOCOL_ERROR']), Z))

    def toggle(stmt, name, where):
        want(isinstance(stmt, ast.Assign) and ast.unparse(stmt.targets[0]) == 'self.pni', where)
        k(name, stmt.value, [('pni', Z)], Z)

    body = [s for s in fn.body if not (isinstance(s, ast.Expr) and isinstance(s.value, ast.Constant))]
    want([a.arg for a in fn.args.args] == ['self', 'command', 'timeout'], 'signature')
    want(len(body) == 6, 'top level statements')
    want(isinstance(body[0], ast.If) and ast.unparse(body[0].test) == 'timeout is None' and not body[0].orelse and
         len(body[0].body) == 1 and isinstance(body[0].body[0], ast.Assign) and ast.unparse(body[0].body[0].targets[0]) == 'timeout',
         'default timeout')
    k('gen_default_timeout', body[0].body[0].value, [('fwt', Q), ('delta_fwt', Q)], Q)
    # presence check
    pc = body[1]
    want(isinstance(pc, ast.If) and ast.unparse(pc.test) == 'command is None' and not pc.orelse, 'presence check')
    pb = strip_logs(pc.body)
    want(len(pb) == 3 and isinstance(pb[0], ast.Assign) and ast.unparse(pb[0].targets[0]) == 'data' and
         ast.unparse(pb[1]) == 'self.clf.exchange(data, timeout)' and isinstance(pb[2], ast.Return) and pb[2].value is None,
         'presence check body')
    k('gen_presence_nak', pb[0].value, [('pni', Z)], L)
    # command blocks
    want(isinstance(body[2], ast.Assign) and ast.unparse(body[2].targets[0]) == 'n_extra', 'n_extra = 0')
    k('gen_extra_init', body[2].value, [], Z)
    fo = body[3]
    want(isinstance(fo, ast.For) and ast.unparse(fo.target) == 'offset' and
         ast.unparse(fo.iter) == 'range(0, len(command), self.miu)' and not fo.orelse, 'for offset')
    fb = strip_logs(fo.body)
    want(len(fb) == 6, 'for offset body')
    for s, n in zip(fb[:3], ('more', 'pfb', 'data')):
        want(isinstance(s, ast.Assign) and ast.unparse(s.targets[0]) == n, 'assignment of ' + n)
    k('gen_more', fb[0].value, [('command', L), ('offset', Z), ('miu', Z)], B)
    k('gen_pfb', fb[1].value, [('more', B), ('pni', Z)], L)
    k('gen_send_data', fb[2].value, [('pfb', L), ('command', L), ('offset', Z), ('miu', Z)], L)
    try_loop(fb[3], 'send', 'n_retry_nak', 'rnak', True)
    bn = fb[4]
    want(isinstance(bn, ast.If) and not bn.orelse and len(strip_logs(bn.body)) == 1 and raises(strip_logs(bn.body)[0], 'PROTOCOL_ERROR'),
         'block number check')
    k('gen_send_bad_bn', bn.test, [('data', L), ('pni', Z)], B)
    mo = fb[5]
    want(isinstance(mo, ast.If) and ast.unparse(mo.test) == 'more', 'if more')
    a, b = strip_logs(mo.body), strip_logs(mo.orelse)
    want(len(a) == 1 and isinstance(a[0], ast.If) and len(b) == 1 and isinstance(b[0], ast.If), 'ack / inf tests')
    k('gen_is_ack', a[0].test, [('data', L)], B)
    ya, na = strip_logs(a[0].body), strip_logs(a[0].orelse)
    want(len(ya) == 1 and len(na) == 1 and raises(na[0], 'PROTOCOL_ERROR'), 'ack branch')
    toggle(ya[0], 'gen_toggle_ack', 'toggle after ack')
    k('gen_is_inf', b[0].test, [('data', L)], B)
    yb, nb = strip_logs(b[0].body), strip_logs(b[0].orelse)
    want(len(yb) == 2 and len(nb) == 1 and raises(nb[0], 'PROTOCOL_ERROR'), 'inf branch')
    toggle(yb[0], 'gen_toggle_inf', 'toggle after inf')
    want(isinstance(yb[1], ast.Assign) and ast.unparse(yb[1].targets[0]) == 'response', 'response')
    k('gen_response_first', yb[1].value, [('data', L)], L)
    # response chaining
    wh = body[4]
    want(isinstance(wh, ast.While) and not wh.orelse, 'while chaining')
    k('gen_chaining', wh.test, [('data', L)], B)
    wb = strip_logs(wh.body)
    want(len(wb) == 7, 'while chaining body')
    extra(wb[0], wb[1], 'chain', lambda s_: raises(s_, 'PROTOCOL_ERROR'))
    want(isinstance(wb[2], ast.Assign) and ast.unparse(wb[2].targets[0]) == 'data', 'R(ACK)')
    k('gen_rack', wb[2].value, [('pni', Z)], L)
    try_loop(wb[3], 'recv', 'n_retry_ack', 'rack', False)
    bn = wb[4]
    want(isinstance(bn, ast.If) and not bn.orelse and len(strip_logs(bn.body)) == 1 and raises(strip_logs(bn.body)[0], 'PROTOCOL_ERROR'),
         'block number check (chaining)')
    k('gen_recv_bad_bn', bn.test, [('data', L), ('pni', Z)], B)
    want(isinstance(wb[5], ast.Assign) and ast.unparse(wb[5].targets[0]) == 'response', 'response accumulation')
    k('gen_response_more', wb[5].value, [('response', L), ('data', L)], L)
    toggle(wb[6], 'gen_toggle_recv', 'toggle after response block')
    want(isinstance(body[5], ast.Return) and ast.unparse(body[5].value) == 'response', 'return response')
    out.append(define('gen_chain_errno_over', [], zlit(consts['PROTOCOL_ERROR']), Z))
    return out


def module_int_consts(tree, names):
    vals = {}
    for s in tree.body:
        if isinstance(s, ast.Assign) and len(s.targets) == 1 and isinstance(s.targets[0], ast.Name) and s.targets[0].id in names:
            v = s.value
            if isinstance(v, ast.UnaryOp) and isinstance(v.op, ast.USub) and isinstance(v.operand, ast.Constant):
                vals[s.targets[0].id] = -v.operand.value
            elif isinstance(v, ast.Constant) and isinstance(v.value, int):
                vals[s.targets[0].id] = v.value
            else:
                raise Bad('constant ' + s.targets[0].id)
    if sorted(vals) != sorted(names):
        raise Bad('nfc.tag error constants')
    return vals


def single_assign(fn, target):
    hits = [n.value for n in ast.walk(fn) if isinstance(n, ast.Assign) and len(n.targets) == 1 and ast.unparse(n.targets[0]) == target]
    if len(hits) != 1:
        raise Bad('%d assignments to %s in %s' % (len(hits), target, fn.name))
    return hits[0]


def generate(repo):
    tt4 = ast.parse(open(os.path.join(repo, TT4)).read())
    tag = ast.parse(open(os.path.join(repo, TAG)).read())
    consts = module_int_consts(tag, ['TIMEOUT_ERROR', 'RECEIVE_ERROR', 'PROTOCOL_ERROR'])
    out = ['(* GENERATED by translate/kspec_c12.py from %s and %s -- do not edit *)' % (TT4, TAG),
           'From Coq Require Import ZArith QArith Qround List Bool.', 'From NV Require Import Base.Bytes.',
           'Import ListNotations.', 'Open Scope Z_scope.', '']
    for n in ('TIMEOUT_ERROR', 'RECEIVE_ERROR', 'PROTOCOL_ERROR'):
        out.append(define('gen_' + n, [], zlit(consts[n]), Z))
    # IsoDepInitiator.__init__
    ini = find(tt4, 'IsoDepInitiator.__init__')
    if [a.arg for a in ini.args.args] != ['self', 'clf', 'fsc', 'fwt']:
        raise Bad('IsoDepInitiator.__init__ signature')
    if ast.unparse(single_assign(ini, 'self.fwt')) != 'fwt' or ast.unparse(single_assign(ini, 'self.pni')) != '0':
        raise Bad('IsoDepInitiator.__init__: self.fwt / self.pni')
    out.append(kernel('gen_dep_miu', single_assign(ini, 'self.miu'), [('fsc', Z)], {'fsc': 'fsc'}, Z))
    out.append(kernel('gen_n_retry_ack', single_assign(ini, 'self.n_retry_ack'), [('fwt', Q)], {'self.fwt': 'fwt'}, Z))
    out.append(kernel('gen_n_retry_nak', single_assign(ini, 'self.n_retry_nak'), [('n_retry_ack', Z)],
                      {'self.n_retry_ack': 'n_retry_ack'}, Z))
    out.append(kernel('gen_delta_fwt', single_assign(ini, 'self.delta_fwt'), [], {}, Q))
    out.append(kernel('gen_max_extra_blocks', single_assign(ini, 'self.max_extra_blocks'), [], {}, Z))
    # the constructors
    skip = ['self._extended_length_support']
    out.append(init_kernel('gen_t4a_init', find(tt4, 'Type4ATag.__init__'), 'self.clf.exchange(rats_cmd', 'v_rats_res',
                           {}, [('v_rats_res', L)], skip + ['self._nfcid']))
    out.append(init_kernel('gen_t4b_init', find(tt4, 'Type4BTag.__init__'), 'self.clf.exchange(attrib_cmd', 'v_attrib_res',
                           {'target.sensb_res': ('v_sensb_res', L)}, [('v_sensb_res', L), ('v_attrib_res', L)], skip))
    out += exchange_kernels(find(tt4, 'IsoDepInitiator.exchange'), consts)
    return '\n'.join(out)


generate.SOURCE = TT4
KERNELS = {'IsoDepK': generate}
