"""C05 kernels regenerated from src/nfc/llcp/tco.py on every run: the two window computations."""
I = 'int'
KERNELS = {
    'DlcK': ('src/nfc/llcp/tco.py', [
        dict(name='DataLinkConnection.send_window_slots', coqname='gen_send_window_slots',
             args={'self.send_win': I, 'self.send_cnt': I, 'self.send_ack': I}),
        dict(name='DataLinkConnection.recv_window_slots', coqname='gen_recv_window_slots',
             args={'self.recv_win': I, 'self.recv_cnt': I, 'self.recv_ack': I}),
    ]),
}
