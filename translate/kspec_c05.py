"""C05 kernels regenerated from src/nfc/llcp/tco.py on every run -> coq/Gen/DlcK.v

send_window_slots / recv_window_slots are translated as whole functions.  The other methods of
DataLinkConnection (send, recv, _enqueue_state_established, dequeue, sendack) and the base class
enqueue are stateful (locks, deques, condition variables, exceptions) and outside the py2coq
subset as whole functions.  What the C05 theorems depend on is their *sequence arithmetic and
tests*.  This generator pulls exactly those expressions out of the methods' syntax trees, checks
that each method still contains the expected number of them in the expected order (fail closed:
any other shape raises, which leaves a Gen file that cannot compile), replaces the state leaves
(`self.send_cnt`, `rcvd_pdu.nr`, `len(message)`, ...) by parameters and hands the pure expression
to py2coq.  coq/Bridge/Dlc.v proves that every ep_* function of Model/Dlc.v is the same function
with each of its arithmetic expressions / tests replaced by the generated kernel.
"""
import ast
import os
import sys

sys.path.insert(0, os.path.dirname(os.path.abspath(__file__)))
import py2coq  # noqa: E402

I, BO = 'int', 'bool'
Unsupported = py2coq.Unsupported
DLC = 'DataLinkConnection.'

# state leaves -> kernel parameters
LEAVES = {
    'self.send_cnt': 'send_cnt', 'self.send_ack': 'send_ack', 'self.send_win': 'send_win', 'self.send_miu': 'send_miu',
    'self.recv_cnt': 'recv_cnt', 'self.recv_ack': 'recv_ack', 'self.recv_win': 'recv_win', 'self.recv_miu': 'recv_miu',
    'self.recv_buf': 'recv_buf', 'self.recv_confs': 'recv_confs', 'self.acks_recvd': 'acks_recvd',
    'self.send_window_slots': 'send_slots', 'self.recv_window_slots': 'recv_slots',
    'self.state.ESTABLISHED': 'established',
    'rcvd_pdu.ns': 'ns', 'rcvd_pdu.nr': 'nr', 'len(rcvd_pdu.data)': 'data_len', 'len(message)': 'msg_len',
    'len(self.recv_queue)': 'rq_len',
}


class Subst(ast.NodeTransformer):
    def visit(self, node):
        if isinstance(node, ast.expr):
            src = ast.unparse(node)
            if src in LEAVES:
                return ast.Name(id=LEAVES[src], ctx=ast.Load())
        return self.generic_visit(node)


def kernel(coqname, expr, args, test=False):
    """expr (ast) with the state leaves replaced by parameters -> Coq definition text.
    test=True: the expression is used for its truth value (Python `if e:`)"""
    e = Subst().visit(ast.parse(ast.unparse(expr), mode='eval').body)
    body = ast.unparse(e)
    free = {n.id for n in ast.walk(e) if isinstance(n, ast.Name)}
    want = {a for a, _ in args}
    if free != want:
        raise Unsupported('%s: expression %r uses %s, expected %s' % (coqname, body, sorted(free), sorted(want)))
    if test:
        body = 'True if %s else False' % body
    src = 'def k(%s):\n    return %s\n' % (', '.join(a for a, _ in args), body)
    return py2coq.Fn(ast.parse(src).body[0], dict(args), coqname=coqname).translate() + '\n'


def nodes(fn, cls, pred=lambda n: True):
    return sorted([n for n in ast.walk(fn) if isinstance(n, cls) and pred(n)], key=lambda n: (n.lineno, n.col_offset))


def expect(what, got, n):
    if len(got) != n:
        raise Unsupported('%s: expected %d occurrence(s), found %d' % (what, n, len(got)))
    return got


def assigns_to(fn, target):
    return nodes(fn, ast.Assign, lambda n: len(n.targets) == 1 and ast.unparse(n.targets[0]) == target)


def augassigns_to(fn, target):
    return nodes(fn, ast.AugAssign, lambda n: ast.unparse(n.target) == target)


def aug_expr(a):
    """x op= e  ->  the expression x op e"""
    return ast.BinOp(left=a.target, op=a.op, right=a.value)


def ifs_with(fn, pred):
    return nodes(fn, (ast.If, ast.While), pred)


def raises(stmts, what):
    return any(isinstance(s, ast.Raise) and what in ast.unparse(s) for s in stmts)


def before(a, b, what):
    if not (a.lineno, a.col_offset) < (b.lineno, b.col_offset):
        raise Unsupported('order changed: ' + what)


def inside(inner, outer, what):
    if not any(n is inner for n in ast.walk(outer)):
        raise Unsupported('nesting changed: ' + what)


def ack_block(fn, cond_if, tag, out, cond_args):
    """the acknowledgement block guarded by `cond_if`:
         self.recv_ack = (self.recv_ack + self.recv_confs) % 16 ; self.recv_confs = 0"""
    upd = expect(tag + ': V(RA) update', [a for a in assigns_to(fn, 'self.recv_ack') if any(n is a for n in ast.walk(cond_if))], 1)[0]
    rst = expect(tag + ': recv_confs reset', [a for a in assigns_to(fn, 'self.recv_confs') if any(n is a for n in ast.walk(cond_if))], 1)[0]
    before(upd, rst, tag + ': recv_confs must be reset after V(RA) is advanced')
    out.append(kernel('gen_dlc_%s_cond' % tag, cond_if.test, cond_args))
    out.append(kernel('gen_dlc_%s_vra' % tag, upd.value, [('recv_ack', I), ('recv_confs', I)]))
    out.append(kernel('gen_dlc_%s_confs' % tag, rst.value, []))
    return upd, rst


def generate(repo):
    path = os.path.join(repo, 'src/nfc/llcp/tco.py')
    tree = ast.parse(open(path).read())
    find = lambda q: py2coq.find_function(tree, q)  # noqa: E731
    out = [py2coq.PRELUDE % {'src': 'src/nfc/llcp/tco.py (translate/kspec_c05.py)'}]

    # ---------------- the two window computations, whole
    out.append(py2coq.Fn(find(DLC + 'send_window_slots'), {'self.send_win': I, 'self.send_cnt': I, 'self.send_ack': I},
                         coqname='gen_send_window_slots').translate() + '\n')
    out.append(py2coq.Fn(find(DLC + 'recv_window_slots'), {'self.recv_win': I, 'self.recv_cnt': I, 'self.recv_ack': I},
                         coqname='gen_recv_window_slots').translate() + '\n')

    # ---------------- send(): EMSGSIZE test, window test, N(S) assignment, V(S) update
    snd = find(DLC + 'send')
    big = expect('send: EMSGSIZE test', ifs_with(snd, lambda n: isinstance(n, ast.If) and raises(n.body, 'errno.EMSGSIZE')), 1)[0]
    out.append(kernel('gen_dlc_send_emsgsize', big.test, [('msg_len', I), ('send_miu', I)]))
    wh = expect('send: window loop', ifs_with(snd, lambda n: isinstance(n, ast.While)), 1)[0]
    t = wh.test
    if not (isinstance(t, ast.BoolOp) and isinstance(t.op, ast.And) and len(t.values) == 2
            and ast.unparse(t.values[1]) == 'self.state.ESTABLISHED'):
        raise Unsupported('send: window loop test shape changed')
    if not any(isinstance(s, ast.If) and raises(s.body, 'errno.EWOULDBLOCK') for s in wh.body):
        raise Unsupported('send: MSG_DONTWAIT no longer raises EWOULDBLOCK inside the window loop')
    out.append(kernel('gen_dlc_send_window_full', t.values[0], [('send_slots', I)]))
    before(big, wh, 'send: EMSGSIZE test must precede the window test')
    ns = expect('send: N(S) assignment', assigns_to(snd, 'send_pdu.ns'), 1)[0]
    vs = expect('send: V(S) update', assigns_to(snd, 'self.send_cnt'), 1)[0]
    before(wh, ns, 'send: N(S) assigned after the window test')
    before(ns, vs, 'send: N(S) must be taken before V(S) is advanced')
    hand = expect('send: hand-over to the base class send()', nodes(
        snd, ast.Call, lambda n: ast.unparse(n.func) == 'super(DataLinkConnection, self).send'), 1)[0]
    # a blocking base-class send() releases the lock while it waits: V(S) must be advanced before
    before(vs, hand, 'send: V(S) must be advanced before the PDU is handed to the base class send()')
    out.append(kernel('gen_dlc_send_ns', ns.value, [('send_cnt', I)]))
    out.append(kernel('gen_dlc_send_vs', vs.value, [('send_cnt', I)]))

    # ---------------- recv(): confirmation counting
    rcv = find(DLC + 'recv')
    inc = expect('recv: recv_confs increment', augassigns_to(rcv, 'self.recv_confs'), 1)[0]
    ovr = expect('recv: overrun guard', ifs_with(rcv, lambda n: isinstance(n, ast.If) and raises(n.body, 'RuntimeError')), 1)[0]
    before(inc, ovr, 'recv: overrun guard after the increment')
    out.append(kernel('gen_dlc_recv_confs', aug_expr(inc), [('recv_confs', I)]))
    out.append(kernel('gen_dlc_recv_overrun', ovr.test, [('recv_confs', I), ('recv_win', I)]))

    # ---------------- _enqueue_state_established(): MIU / N(S) tests, acks, V(SA), V(R)
    enq = find(DLC + '_enqueue_state_established')
    rej = ifs_with(enq, lambda n: isinstance(n, ast.If) and any(
        isinstance(s, ast.Assign) and ast.unparse(s.targets[0]) == 'frmr' and 'from_pdu' in ast.unparse(s.value) for s in n.body))
    expect('enqueue: frame reject tests', rej, 2)
    if 'flags="I"' not in ast.unparse(rej[0].body[0]).replace("'", '"') or 'flags="S"' not in ast.unparse(rej[1].body[0]).replace("'", '"'):
        raise Unsupported('enqueue: frame reject flags changed')
    out.append(kernel('gen_dlc_enq_oversize', rej[0].test, [('data_len', I), ('recv_miu', I)]))
    out.append(kernel('gen_dlc_enq_ns_bad', rej[1].test, [('ns', I), ('recv_cnt', I)]))
    acks = expect('enqueue: acks computation', assigns_to(enq, 'acks'), 1)[0]
    out.append(kernel('gen_dlc_enq_acks', acks.value, [('nr', I), ('send_ack', I)]))
    ifa = expect('enqueue: `if acks:`', ifs_with(enq, lambda n: isinstance(n, ast.If) and ast.unparse(n.test) == 'acks'), 1)[0]
    out.append(kernel('gen_dlc_enq_acks_any', ifa.test, [('acks', I)], test=True))
    cnt = expect('enqueue: acks_recvd update', augassigns_to(enq, 'self.acks_recvd'), 1)[0]
    vsa = expect('enqueue: V(SA) update', assigns_to(enq, 'self.send_ack'), 1)[0]
    inside(cnt, ifa, 'enqueue: acks_recvd update under `if acks`')
    inside(vsa, ifa, 'enqueue: V(SA) update under `if acks`')
    out.append(kernel('gen_dlc_enq_acks_recvd', aug_expr(cnt), [('acks_recvd', I), ('acks', I)]))
    out.append(kernel('gen_dlc_enq_vsa', vsa.value, [('nr', I)]))
    vr = expect('enqueue: V(R) update', assigns_to(enq, 'self.recv_cnt'), 1)[0]
    out.append(kernel('gen_dlc_enq_vr', vr.value, [('recv_cnt', I)]))
    before(rej[1], acks, 'enqueue: N(S) test before acknowledgement processing')
    before(acks, vr, 'enqueue: acknowledgement processing before V(R) is advanced')
    sup = expect('enqueue: hand over to the base class', nodes(enq, ast.Call, lambda n: ast.unparse(n).endswith('.enqueue(rcvd_pdu)')), 1)[0]
    before(vr, sup, 'enqueue: V(R) advanced before the PDU is queued')

    # ---------------- base class enqueue(): receive-queue room test
    benq = find('TransmissionControlObject.enqueue')
    room = expect('base enqueue: room test', ifs_with(benq, lambda n: isinstance(n, ast.If) and 'recv_buf' in ast.unparse(n.test)), 1)[0]
    if not any('self.recv_queue.append(rcvd_pdu)' in ast.unparse(s) for s in room.body) or \
            any('recv_queue.append' in ast.unparse(s) for s in room.orelse):
        raise Unsupported('base enqueue: append / discard branches changed')
    out.append(kernel('gen_dlc_enq_room', room.test, [('rq_len', I), ('recv_buf', I)]))

    # ---------------- dequeue(): piggy-backed and necessary acknowledgement
    deq = find(DLC + 'dequeue')
    cond = 'self.recv_confs and self.recv_cnt != self.recv_ack'
    pig = expect('dequeue: piggy-back condition', ifs_with(deq, lambda n: isinstance(n, ast.If) and ast.unparse(n.test) == cond), 1)[0]
    upd, rst = ack_block(deq, pig, 'piggy', out, [('recv_confs', I), ('recv_cnt', I), ('recv_ack', I)])
    pnr = expect('dequeue: N(R) of the I PDU', assigns_to(deq, 'send_pdu.nr'), 1)[0]
    before(rst, pnr, 'dequeue: N(R) is taken after the piggy-back update')
    out.append(kernel('gen_dlc_piggy_nr', pnr.value, [('recv_ack', I)]))
    nec = expect('dequeue: necessary ack condition',
                 ifs_with(deq, lambda n: isinstance(n, ast.If) and 'recv_window_slots' in ast.unparse(n.test)), 1)[0]
    upd, rst = ack_block(deq, nec, 'necessary', out, [('established', BO), ('recv_confs', I), ('recv_slots', I)])
    rets = nodes(deq, ast.Return, lambda n: n.value is not None and ast.unparse(n.value).startswith('ACK('))
    expect('dequeue: RR/RNR returns', rets, 2)
    for r in rets:
        if ast.unparse(r.value) != 'ACK(self.peer, self.addr, self.recv_ack)':
            raise Unsupported('dequeue: RR/RNR no longer carries V(RA)')
    inside(rets[1], nec, 'dequeue: necessary RR/RNR under its condition')
    before(rst, rets[1], 'dequeue: necessary RR/RNR built after V(RA) is advanced')

    # ---------------- sendack(): voluntary acknowledgement
    sak = find(DLC + 'sendack')
    vol = expect('sendack: condition', ifs_with(sak, lambda n: isinstance(n, ast.If) and ast.unparse(n.test) == cond), 1)[0]
    upd, rst = ack_block(sak, vol, 'voluntary', out, [('recv_confs', I), ('recv_cnt', I), ('recv_ack', I)])
    rets = expect('sendack: RR/RNR return', nodes(sak, ast.Return, lambda n: n.value is not None), 1)
    if ast.unparse(rets[0].value) != 'ACK(self.peer, self.addr, self.recv_ack)':
        raise Unsupported('sendack: RR/RNR no longer carries V(RA)')
    before(rst, rets[0], 'sendack: RR/RNR built after V(RA) is advanced')
    return ''.join(out)


generate.SOURCE = 'src/nfc/llcp/tco.py'
KERNELS = {'DlcK': generate}
