"""C04 kernel tie: the pure parts of src/nfc/dep.py that Model/Dep.v relies on are regenerated on every run
as Gallina definitions (Gen/DepK.v); coq/Bridge/Dep.v proves them equal to the corresponding definitions of the model.

  DEP_REQ_RES.encode         the PFB octet   (fmt << 4) | (nad << 3) | (did << 2) | pni
  DEP_REQ_RES.decode         the four PFB fields  cls.PFB(pfb >> 4, bool(pfb & 8), bool(pfb & 4), pfb & 3)
  DEP_REQ_RES                the PDU type constants (LastInformation ... TimeoutExtension)
  Initiator/Target.exchange  every `self.pni = <expr>` packet number step (two sites each)
  Initiator/Target.activate  the packet number reset (self.pni = 0 / self.pni = None) in the success branch
  Initiator/Target.exchange  payload slicing by self.miu: chunk, remainder (del), "more" flag
  Initiator.exchange.RTOX    the RTOX value range test;  Target.send_timeout_extension: the RTOX mask
  Initiator/Target.encode_frame   length octet (struct.pack("B", len(frame) + 1)) and 106A start byte
  Initiator/Target.decode_frame   start byte / length octet / minimum length checks with their exception classes,
                                  and the command / response code test
  Initiator.send_dep_req_recv_dep_res   retry counts passed to request_attention / request_retransmission, the
                                  `chained` flag; Initiator.exchange: the range() of the two RTOX loops

Fail closed: every extraction step checks the shape of the statement it reads (number of assignments, operators,
constants, exception classes); anything unexpected raises and the dependent obligations break.
"""
import ast
import os

DEP = 'src/nfc/dep.py'


class Bad(Exception):
    pass


def find(tree, qual):
    node = tree
    for part in qual.split('.'):
        for ch in ast.iter_child_nodes(node):
            if isinstance(ch, (ast.FunctionDef, ast.ClassDef)) and ch.name == part:
                node = ch
                break
        else:
            raise Bad('%s not found' % qual)
    return node


def walk_own(fn):
    """nodes of fn without descending into nested function definitions"""
    stack = list(ast.iter_child_nodes(fn))
    while stack:
        n = stack.pop()
        yield n
        if not isinstance(n, (ast.FunctionDef, ast.Lambda, ast.ClassDef)):
            stack.extend(ast.iter_child_nodes(n))


def name_of(e):
    if isinstance(e, ast.Name):
        return e.id
    if isinstance(e, ast.Attribute) and isinstance(e.value, ast.Name):
        return e.attr
    raise Bad('not a variable: ' + ast.dump(e)[:60])


class Tr(object):
    """expressions over Z / bool / bytes variables"""

    def __init__(self, types):
        self.types = types
        self.used = []

    def var(self, e, want):
        n = name_of(e)
        if self.types.get(n) not in want:
            raise Bad('variable %s has type %s, wanted %s' % (n, self.types.get(n), want))
        if n not in self.used:
            self.used.append(n)
        return 'v_' + n

    def boolean(self, e):
        if isinstance(e, ast.Call) and isinstance(e.func, ast.Name) and e.func.id == 'bool' and len(e.args) == 1 and not e.keywords:
            a = e.args[0]
            try:
                n = name_of(a)
            except Bad:
                n = None
            if n is not None and self.types.get(n) == 'bytes':
                return '(match %s with nil => false | _ => true end)' % self.var(a, ('bytes',))
            return '(negb (%s =? 0))' % self.expr(a)
        if isinstance(e, ast.UnaryOp) and isinstance(e.op, ast.Not):
            return '(negb %s)' % self.boolean(e.operand)
        if isinstance(e, ast.Compare):
            ops = {ast.Lt: '(%s <? %s)', ast.Gt: '(%s >? %s)', ast.Eq: '(%s =? %s)', ast.NotEq: '(negb (%s =? %s))',
                   ast.LtE: '(%s <=? %s)', ast.GtE: '(%s >=? %s)'}
            terms = [e.left] + list(e.comparators)
            parts = []
            for op, a, b in zip(e.ops, terms, terms[1:]):
                if type(op) not in ops:
                    raise Bad('comparison ' + type(op).__name__)
                parts.append(ops[type(op)] % (self.expr(a), self.expr(b)))
            return '(' + ' && '.join(parts) + ')'
        try:
            n = name_of(e)
        except Bad:
            n = None
        if n is not None and self.types.get(n) == 'bool':
            return self.var(e, ('bool',))
        raise Bad('condition ' + ast.dump(e)[:80])

    def expr(self, e):
        if isinstance(e, ast.Constant) and isinstance(e.value, int) and not isinstance(e.value, bool):
            return str(e.value) if e.value >= 0 else '(%d)' % e.value
        if isinstance(e, ast.BinOp):
            ops = {ast.Add: 'Z.add', ast.Sub: 'Z.sub', ast.Mult: 'Z.mul', ast.LShift: 'Z.shiftl', ast.RShift: 'Z.shiftr',
                   ast.BitAnd: 'Z.land', ast.BitOr: 'Z.lor', ast.Mod: 'Z.modulo'}
            if type(e.op) not in ops:
                raise Bad('operator ' + type(e.op).__name__)
            return '(%s %s %s)' % (ops[type(e.op)], self.expr(e.left), self.expr(e.right))
        if isinstance(e, ast.Call) and isinstance(e.func, ast.Name) and e.func.id == 'len' and len(e.args) == 1:
            return '(len %s)' % self.var(e.args[0], ('bytes',))
        n = name_of(e)
        if self.types.get(n) == 'bool':          # Python: True == 1 in arithmetic
            return '(if %s then 1 else 0)' % self.var(e, ('bool',))
        return self.var(e, ('Z',))

    def slice0(self, e):
        """x[0:E] on a bytes variable -> (variable, upper bound)"""
        if not (isinstance(e, ast.Subscript) and isinstance(e.slice, ast.Slice) and e.slice.step is None and
                isinstance(e.slice.lower, ast.Constant) and e.slice.lower.value == 0 and e.slice.upper is not None):
            raise Bad('not a [0:E] slice: ' + ast.dump(e)[:80])
        return self.var(e.value, ('bytes',)), self.expr(e.slice.upper)


COQT = {'Z': 'Z', 'bool': 'bool', 'bytes': 'list Z'}


def defn(name, args, ret, body):
    return 'Definition %s %s : %s :=\n  %s.\n' % (name, ' '.join('(v_%s : %s)' % (n, COQT[t]) for n, t in args), ret, body)


def one(xs, what):
    xs = list(xs)
    if len(xs) != 1:
        raise Bad('%d x %s (expected exactly one)' % (len(xs), what))
    return xs[0]


def assigns(fn, target, own=True):
    it = walk_own(fn) if own else ast.walk(fn)
    return [n.value for n in it if isinstance(n, ast.Assign) and len(n.targets) == 1 and ast.unparse(n.targets[0]) == target]


def no_augassign(fn, target):
    for n in ast.walk(fn):
        if isinstance(n, ast.AugAssign) and ast.unparse(n.target) == target:
            raise Bad('augmented assignment to %s in %s' % (target, fn.name))


ERR = {'ProtocolError': 'ProtocolError', 'TransmissionError': 'TransmissionError'}


def raised(stmts):
    """the nfc.clf.<Error> raised by a block of the form [error = "..."; raise nfc.clf.X(error)] or [raise nfc.clf.X(..)]"""
    r = stmts[-1]
    for s_ in stmts[:-1]:
        if not (isinstance(s_, ast.Assign) and isinstance(s_.value, (ast.Constant, ast.BinOp))):
            raise Bad('unexpected statement before raise')
    if not (isinstance(r, ast.Raise) and isinstance(r.exc, ast.Call) and ast.unparse(r.exc.func).startswith('nfc.clf.')):
        raise Bad('block does not raise an nfc.clf error')
    cls = ast.unparse(r.exc.func)[len('nfc.clf.'):]
    if cls not in ERR:
        raise Bad('unexpected exception class ' + cls)
    return ERR[cls]


def is_brty_106(test):
    return ast.unparse(test) == "self.target.brty == '106A'"


def gen_encode_frame(fn, name):
    """frame = packet.encode(); frame = struct.pack("B", E) + frame; if 106A: frame = b'\\xF0' + frame; return bytearray(frame)"""
    body = [s_ for s_ in fn.body if not isinstance(s_, ast.Expr)]
    if len(body) != 4:
        raise Bad('%s: %d statements' % (name, len(body)))
    s0, s1, s2, s3 = body
    if ast.unparse(s0) != 'frame = packet.encode()' or ast.unparse(s3) != 'return bytearray(frame)':
        raise Bad(name + ': first / last statement')
    v = s1.value if isinstance(s1, ast.Assign) and ast.unparse(s1.targets[0]) == 'frame' else None
    if not (isinstance(v, ast.BinOp) and isinstance(v.op, ast.Add) and ast.unparse(v.right) == 'frame' and
            isinstance(v.left, ast.Call) and ast.unparse(v.left.func) == 'struct.pack' and len(v.left.args) == 2 and
            isinstance(v.left.args[0], ast.Constant) and v.left.args[0].value == 'B'):
        raise Bad(name + ': length octet statement')
    ln = Tr({'frame': 'bytes'}).expr(v.left.args[1])
    if not (isinstance(s2, ast.If) and is_brty_106(s2.test) and not s2.orelse and len(s2.body) == 1):
        raise Bad(name + ': start byte statement')
    a = s2.body[0]
    if not (isinstance(a, ast.Assign) and ast.unparse(a.targets[0]) == 'frame' and isinstance(a.value, ast.BinOp) and
            isinstance(a.value.op, ast.Add) and ast.unparse(a.value.right) == 'frame' and
            isinstance(a.value.left, ast.Constant) and isinstance(a.value.left.value, bytes)):
        raise Bad(name + ': start byte assignment')
    start = '[' + '; '.join(str(b) for b in a.value.left.value) + ']'
    # struct.pack("B", x) raises struct.error unless 0 <= x <= 255 (x = len + 1 is never negative)
    return defn(name, [('b106', 'bool'), ('frame', 'bytes')], 'res (list Z)',
                'let l := %s in\n  if 255 <? l then Crash StructErr else Ok ((if v_b106 then %s else []) ++ [l] ++ v_frame)' % (ln, start))


def gen_strip_frame(fn, name):
    """the first three statements of decode_frame"""
    s0, s1, s2, s3 = fn.body[0], fn.body[1], fn.body[2], fn.body[3]
    # if 106A: if len(frame) == 0 or frame.pop(0) != K: raise
    if not (isinstance(s0, ast.If) and is_brty_106(s0.test) and not s0.orelse and len(s0.body) == 1 and isinstance(s0.body[0], ast.If)):
        raise Bad(name + ': start byte check')
    t = s0.body[0].test
    if not (isinstance(t, ast.BoolOp) and isinstance(t.op, ast.Or) and len(t.values) == 2 and
            ast.unparse(t.values[0]) == 'len(frame) == 0' and isinstance(t.values[1], ast.Compare) and
            ast.unparse(t.values[1].left) == 'frame.pop(0)' and isinstance(t.values[1].ops[0], ast.NotEq) and
            isinstance(t.values[1].comparators[0], ast.Constant)):
        raise Bad(name + ': start byte test')
    k = t.values[1].comparators[0].value
    e0 = raised(s0.body[0].body)
    # if len(frame) == 0 or len(frame) != frame.pop(0): raise
    t = s1.test if isinstance(s1, ast.If) else None
    if not (t is not None and not s1.orelse and ast.unparse(t) == 'len(frame) == 0 or len(frame) != frame.pop(0)'):
        raise Bad(name + ': length octet test')
    e1 = raised(s1.body)
    # if len(frame) < N: raise
    t = s2.test if isinstance(s2, ast.If) else None
    if not (t is not None and not s2.orelse and isinstance(t, ast.Compare) and ast.unparse(t.left) == 'len(frame)' and
            isinstance(t.ops[0], ast.Lt) and isinstance(t.comparators[0], ast.Constant)):
        raise Bad(name + ': minimum length test')
    n = t.comparators[0].value
    e2 = raised(s2.body)
    # if frame[0] != C0 or frame[1] not in (..): raise ProtocolError
    t = s3.test if isinstance(s3, ast.If) else None
    if not (t is not None and isinstance(t, ast.BoolOp) and isinstance(t.op, ast.Or) and len(t.values) == 2 and
            ast.unparse(t.values[0].left) == 'frame[0]' and isinstance(t.values[0].ops[0], ast.NotEq) and
            ast.unparse(t.values[1].left) == 'frame[1]' and isinstance(t.values[1].ops[0], ast.NotIn) and
            isinstance(t.values[1].comparators[0], ast.Tuple)):
        raise Bad(name + ': code test')
    c0 = t.values[0].comparators[0].value
    codes = [c.value for c in t.values[1].comparators[0].elts]
    if raised(s3.body) != 'ProtocolError':
        raise Bad(name + ': code test exception')
    # len(frame) is evaluated before frame.pop(0): the comparison is between the length including the length octet and that octet
    strip = defn(name, [('b106', 'bool'), ('frame', 'bytes')], 'res (list Z)',
                 'match (if v_b106 then match v_frame with nil => Err %s | x :: r => if negb (x =? %d) then Err %s else Ok r end else Ok v_frame) with\n'
                 '  | Ok f1 => match f1 with\n'
                 '             | nil => Err %s\n'
                 '             | l :: r => if negb (len f1 =? l) then Err %s else if len r <? %d then Err %s else Ok r\n'
                 '             end\n'
                 '  | Err e => Err e | Crash c => Crash c | Hang => Hang\n  end' % (e0, k, e0, e1, e1, n, e2))
    code = defn(name.replace('strip_frame', 'code_bad'), [('c0', 'Z'), ('c1', 'Z')], 'bool',
                '(negb (v_c0 =? %d)) || negb (existsb (fun k => v_c1 =? k) [%s])' % (c0, '; '.join(map(str, codes))))
    return strip + '\n' + code


def generate(repo):
    tree = ast.parse(open(os.path.join(repo, DEP)).read())
    out = ['(* GENERATED by translate/kspec_c04.py from %s -- do not edit *)' % DEP,
           'From Coq Require Import ZArith List Bool.', 'From NV Require Import Base.Result Base.Bytes Base.PyPrims.',
           'Import ListNotations.', 'Open Scope Z_scope.', '']
    rr = find(tree, 'DEP_REQ_RES')

    # ---- PDU type constants
    names = ('LastInformation', 'MoreInformation', 'PositiveAck', 'NegativeAck', 'Attention', 'TimeoutExtension')
    tup = one([n for n in rr.body if isinstance(n, ast.Assign) and isinstance(n.targets[0], ast.Tuple) and
               tuple(ast.unparse(x) for x in n.targets[0].elts) == names], 'PDU type constant tuple')
    consts = dict(zip(names, [c.value for c in tup.value.elts]))
    for k in names:
        out.append('Definition gen_%s : Z := %d.' % (k, consts[k]))
    out.append('')

    # ---- PFB encode / decode
    enc = find(tree, 'DEP_REQ_RES.encode')
    v = one([x for x in assigns(enc, 'pfb') if isinstance(x, ast.BinOp)], 'PFB octet expression')
    tr = Tr({'fmt': 'Z', 'nad': 'bool', 'did': 'bool', 'pni': 'Z'})
    out.append(defn('gen_pfb_encode', [('fmt', 'Z'), ('nad', 'bool'), ('did', 'bool'), ('pni', 'Z')], 'Z', tr.expr(v)))
    dec = find(tree, 'DEP_REQ_RES.decode')
    call = one([n for n in ast.walk(dec) if isinstance(n, ast.Call) and ast.unparse(n.func) == 'cls.PFB'], 'cls.PFB(...) call')
    if len(call.args) != 4 or call.keywords:
        raise Bad('cls.PFB arity')
    tr = Tr({'pfb': 'Z'})
    out.append(defn('gen_pfb_fmt', [('pfb', 'Z')], 'Z', tr.expr(call.args[0])))
    out.append(defn('gen_pfb_nad', [('pfb', 'Z')], 'bool', tr.boolean(call.args[1])))
    out.append(defn('gen_pfb_did', [('pfb', 'Z')], 'bool', tr.boolean(call.args[2])))
    out.append(defn('gen_pfb_pni', [('pfb', 'Z')], 'Z', tr.expr(call.args[3])))

    # ---- packet number steps
    for cls, pre in (('Initiator', 'i'), ('Target', 't')):
        fn = find(tree, cls + '.exchange')
        no_augassign(fn, 'self.pni')
        steps = [x for x in assigns(fn, 'self.pni') if not isinstance(x, ast.Constant)]
        if len(steps) != 2:
            raise Bad('%s.exchange: %d packet number steps' % (cls, len(steps)))
        # source order
        steps.sort(key=lambda x: x.lineno)
        for i, x in enumerate(steps):
            out.append(defn('gen_%s_pni_next_%d' % (pre, i + 1), [('pni', 'Z')], 'Z', Tr({'pni': 'Z'}).expr(x)))

    # ---- packet number reset in activate (so that activating an object again starts like a fresh one)
    ia = find(tree, 'Initiator.activate')
    v = one(assigns(ia, 'self.pni'), 'Initiator.activate self.pni =')
    if not (isinstance(v, ast.Constant) and isinstance(v.value, int) and not isinstance(v.value, bool)):
        raise Bad('Initiator.activate: self.pni is not reset to a constant')
    no_augassign(ia, 'self.pni')
    out.append('Definition gen_i_activate_pni : Z := %d.' % v.value)
    ta = find(tree, 'Target.activate')
    v = one(assigns(ta, 'self.pni'), 'Target.activate self.pni =')
    if not (isinstance(v, ast.Constant) and v.value is None):
        raise Bad('Target.activate: self.pni is not reset to None')
    # both resets must sit in the branch that returns the general bytes (not in an earlier, conditional place)
    for fn, ret in ((ia, 'return self.gbt'), (ta, 'return self.gbi')):
        blk = [n for n in ast.walk(fn) if isinstance(n, ast.If) and
               any(isinstance(x, ast.Assign) and ast.unparse(x.targets[0]) == 'self.pni' for x in n.body) and
               any(isinstance(x, ast.Return) and ast.unparse(x) == ret for x in n.body)]
        if len(blk) != 1:
            raise Bad('%s: packet number reset is not in the success branch' % fn.name)
    out.append('Definition gen_t_activate_pni : option Z := None.\n')

    # ---- payload slicing
    ix = find(tree, 'Initiator.exchange')
    tr = Tr({'send_data': 'bytes', 'miu': 'Z'})
    sd, up = tr.slice0(one(assigns(ix, 'data'), 'Initiator data = send_data[0:miu]'))
    out.append(defn('gen_i_chunk', [('send_data', 'bytes'), ('miu', 'Z')], 'list Z', '(pyslice %s 0 %s)' % (sd, up)))
    dl = one([n for n in walk_own(ix) if isinstance(n, ast.Delete)], 'Initiator del')
    sd, up = tr.slice0(one(dl.targets, 'del target'))
    out.append(defn('gen_i_rest', [('send_data', 'bytes'), ('miu', 'Z')], 'list Z', '(skipn (length (pyslice %s 0 %s)) %s)' % (sd, up, sd)))
    inf = one([n for n in walk_own(ix) if isinstance(n, ast.Call) and ast.unparse(n.func) == 'INF'], 'INF(...) call')
    if len(inf.args) != 5 or ast.unparse(inf.args[0]) != 'self.pni' or ast.unparse(inf.args[1]) != 'data':
        raise Bad('INF call shape')
    out.append(defn('gen_i_more', [('send_data', 'bytes')], 'bool', Tr({'send_data': 'bytes'}).boolean(inf.args[2])))
    tx = find(tree, 'Target.exchange')
    tr = Tr({'send_data': 'bytes', 'miu': 'Z'})
    sd, up = tr.slice0(one(assigns(tx, 'data'), 'Target data = send_data[0:miu]'))
    out.append(defn('gen_t_chunk', [('send_data', 'bytes'), ('miu', 'Z')], 'list Z', '(pyslice %s 0 %s)' % (sd, up)))
    dl = one([n for n in walk_own(tx) if isinstance(n, ast.Delete)], 'Target del')
    sd, up = tr.slice0(one(dl.targets, 'del target'))
    out.append(defn('gen_t_rest', [('send_data', 'bytes'), ('miu', 'Z')], 'list Z', '(skipn (length (pyslice %s 0 %s)) %s)' % (sd, up, sd)))
    out.append(defn('gen_t_more', [('send_data', 'bytes'), ('miu', 'Z')], 'bool', tr.boolean(one(assigns(tx, 'more'), 'Target more ='))))

    # ---- RTOX
    rt = find(tree, 'Initiator.exchange.RTOX')
    tests = [n for n in rt.body if isinstance(n, ast.If)]
    if len(tests) != 2 or ast.unparse(tests[0].test) != 'len(data) == 0' or raised(tests[0].body) != 'ProtocolError' or \
            raised(tests[1].body) != 'ProtocolError' or ast.unparse(one(assigns(rt, 'rtox'), 'rtox =')) != 'data[0]':
        raise Bad('Initiator.exchange.RTOX shape')
    out.append(defn('gen_rtox_bad', [('rtox', 'Z')], 'bool', Tr({'rtox': 'Z'}).boolean(tests[1].test)))
    ste = find(tree, 'Target.send_timeout_extension')
    ret = one([n for n in walk_own(ste) if isinstance(n, ast.Return)], 'send_timeout_extension return')
    if not (isinstance(ret.value, ast.BinOp) and ast.unparse(ret.value.left) == 'req.data[0]' and isinstance(ret.value.op, ast.BitAnd)):
        raise Bad('send_timeout_extension return shape')
    out.append(defn('gen_rtox_mask', [('x', 'Z')], 'Z', '(Z.land v_x %s)' % Tr({}).expr(ret.value.right)))
    loops = [n for n in walk_own(ix) if isinstance(n, ast.For)]
    if len(loops) != 2 or any(ast.unparse(n.iter) != ast.unparse(loops[0].iter) for n in loops):
        raise Bad('RTOX loops')
    it = loops[0].iter
    if not (isinstance(it, ast.Call) and ast.unparse(it.func) == 'range' and len(it.args) == 1 and isinstance(it.args[0], ast.Constant)):
        raise Bad('RTOX loop range')
    out.append('Definition gen_n_rtox : nat := %d.\n' % it.args[0].value)

    # ---- retry counts, chained flag
    sr = find(tree, 'Initiator.send_dep_req_recv_dep_res')
    for fname, cname in (('request_attention', 'gen_n_retry_atn'), ('request_retransmission', 'gen_n_retry_nak')):
        c = one([n for n in walk_own(sr) if isinstance(n, ast.Call) and ast.unparse(n.func) == fname], fname + ' call')
        if len(c.args) < 2 or ast.unparse(c.args[0]) != 'self' or not isinstance(c.args[1], ast.Constant):
            raise Bad(fname + ' call shape')
        inner = find(tree, 'Initiator.send_dep_req_recv_dep_res.' + fname)
        loop = one([n for n in walk_own(inner) if isinstance(n, ast.For)], fname + ' loop')
        if ast.unparse(loop.iter) != 'range(%s)' % inner.args.args[1].arg:
            raise Bad(fname + ' loop range')
        out.append('Definition %s : nat := %d.' % (cname, c.args[1].value))
    ch = one(assigns(sr, 'chained'), 'chained =')
    if not (isinstance(ch, ast.Compare) and ast.unparse(ch.left) == 'req.pfb.fmt' and isinstance(ch.ops[0], ast.Eq) and
            ast.unparse(ch.comparators[0]).startswith('DEP_REQ.') and ast.unparse(ch.comparators[0])[8:] in consts):
        raise Bad('chained shape')
    out.append('Definition gen_is_chained (v_fmt : Z) : bool := v_fmt =? %d.\n' % consts[ast.unparse(ch.comparators[0])[8:]])
    nak = find(tree, 'Initiator.send_dep_req_recv_dep_res.request_retransmission')
    ex = one(assigns(nak, 'expected'), 'expected =')
    aug = one([n for n in ast.walk(nak) if isinstance(n, ast.AugAssign) and ast.unparse(n.target) == 'expected'], 'expected +=')
    guard = one([n for n in ast.walk(nak) if isinstance(n, ast.If) and aug in n.body], 'if chained')
    if ast.unparse(guard.test) != 'chained' or guard.orelse:
        raise Bad('expected += guard')

    def fmts(t):
        return [consts[ast.unparse(x)[8:]] for x in t.elts]
    out.append('Definition gen_nak_expected (v_chained : bool) : list Z := [%s] ++ (if v_chained then [%s] else []).\n'
               % ('; '.join(map(str, fmts(ex))), '; '.join(map(str, fmts(aug.value)))))

    # ---- frame codec
    out.append(gen_encode_frame(find(tree, 'Initiator.encode_frame'), 'gen_i_encode_frame'))
    out.append(gen_encode_frame(find(tree, 'Target.encode_frame'), 'gen_t_encode_frame'))
    out.append(gen_strip_frame(find(tree, 'Initiator.decode_frame'), 'gen_i_strip_frame'))
    out.append(gen_strip_frame(find(tree, 'Target.decode_frame'), 'gen_t_strip_frame'))
    return '\n'.join(out)


generate.SOURCE = DEP
KERNELS = {'DepK': generate}
