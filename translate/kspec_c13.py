"""C13: the exception-flow skeletons of the contactless drivers are regenerated on every run by the
custom (non-py2coq) generator translate/skel_c13.py -> coq/Gen/DriverSkel.v"""
import os
import sys

sys.path.insert(0, os.path.dirname(os.path.abspath(__file__)))
import skel_c13  # noqa: E402

KERNELS = {'DriverSkel': skel_c13.generate}
