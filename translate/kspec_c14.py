"""C14: frame construction kernels cut out of the driver methods (fail closed on any change of shape).

  gen_pn53x_build cmd_code cmd_data   <- Chipset.command: the `head`/`data`/`tail` statements and the frame that is written
  gen_acr122_build cmd_code cmd_data  <- acr122.Chipset.command + ccid_xfr_block: pseudo APDU and CCID header
  gen_rcs380_build data               <- rcs380.Frame.__init__ (encode branch)
"""
import ast
import copy
import os
import sys

sys.path.insert(0, os.path.dirname(os.path.abspath(__file__)))
import py2coq  # noqa: E402
from py2coq import Unsupported  # noqa: E402

I, B = 'int', 'bytes'


def _cls_method(tree, cls, meth):
    return py2coq.find_function(tree, cls + '.' + meth)


def _class_const_bytes(tree, cls, name):
    for n in tree.body:
        if isinstance(n, ast.ClassDef) and n.name == cls:
            for st in n.body:
                if isinstance(st, ast.Assign) and len(st.targets) == 1 and isinstance(st.targets[0], ast.Name) \
                        and st.targets[0].id == name:
                    v = st.value
                    if isinstance(v, ast.Call) and isinstance(v.func, ast.Name) and v.func.id in ('bytearray', 'bytes') \
                            and len(v.args) == 1 and isinstance(v.args[0], ast.Constant) and isinstance(v.args[0].value, bytes):
                        return v.args[0].value
                    if isinstance(v, ast.Constant) and isinstance(v.value, bytes):
                        return v.value
                    if isinstance(v, ast.Call) and ast.unparse(v.func) in ('bytearray.fromhex', 'bytes.fromhex') \
                            and len(v.args) == 1 and isinstance(v.args[0], ast.Constant) and isinstance(v.args[0].value, str):
                        return bytes.fromhex(v.args[0].value)
    raise Unsupported('class constant %s.%s' % (cls, name))


def _append_to_assign(stmts):
    """x.append(e)  ->  x = x + bytearray([e])"""
    out = []
    for s in stmts:
        if isinstance(s, ast.Expr) and isinstance(s.value, ast.Call) and isinstance(s.value.func, ast.Attribute) \
                and s.value.func.attr == 'append' and isinstance(s.value.func.value, ast.Name) and len(s.value.args) == 1:
            x = s.value.func.value.id
            lst = ast.Call(func=ast.Name(id='bytearray', ctx=ast.Load()), args=[ast.List(elts=[s.value.args[0]], ctx=ast.Load())], keywords=[])
            out.append(ast.Assign(targets=[ast.Name(id=x, ctx=ast.Store())],
                                  value=ast.BinOp(left=ast.Name(id=x, ctx=ast.Load()), op=ast.Add(), right=lst)))
        elif isinstance(s, ast.If):
            s2 = copy.copy(s)
            s2.body = _append_to_assign(s.body)
            s2.orelse = _append_to_assign(s.orelse)
            out.append(s2)
        else:
            out.append(s)
    return out


def _is_name_assign(s, name):
    return isinstance(s, ast.Assign) and len(s.targets) == 1 and isinstance(s.targets[0], ast.Name) and s.targets[0].id == name


def _synth(name, args, body):
    fn = ast.FunctionDef(name=name, args=ast.arguments(posonlyargs=[], args=[ast.arg(arg=a) for a in args], vararg=None,
                                                       kwonlyargs=[], kw_defaults=[], kwarg=None, defaults=[]),
                         body=body, decorator_list=[])
    return ast.fix_missing_locations(fn)


def pn53x_build(repo):
    tree = ast.parse(open(os.path.join(repo, 'src/nfc/clf/pn53x.py')).read())
    cmd = _cls_method(tree, 'Chipset', 'command')
    sof = _class_const_bytes(tree, 'Chipset', 'SOF')
    outer = [s for s in cmd.body if isinstance(s, ast.If) and ast.unparse(s.test) == 'cmd_data is not None']
    if len(outer) != 1:
        raise Unsupported('Chipset.command: `if cmd_data is not None` block')
    blk = outer[0].body
    heads = [s for s in blk if isinstance(s, ast.If) and 'len(cmd_data)' in ast.unparse(s.test)]
    datas = [s for s in blk if _is_name_assign(s, 'data')]
    tails = [s for s in blk if _is_name_assign(s, 'tail')]
    if len(heads) != 1 or len(datas) != 1 or len(tails) != 1:
        raise Unsupported('Chipset.command: head/data/tail statements')
    if blk.index(heads[0]) > blk.index(datas[0]) or blk.index(datas[0]) > blk.index(tails[0]):
        raise Unsupported('Chipset.command: order of head/data/tail')
    writes = [n for n in ast.walk(outer[0]) if isinstance(n, ast.Call) and isinstance(n.func, ast.Attribute)
              and n.func.attr == 'write_frame' and len(n.args) == 1]
    written = [ast.unparse(w.args[0]) for w in writes]
    if 'head + data + tail' not in written:
        raise Unsupported('Chipset.command: frame written is not head + data + tail')
    body = _append_to_assign([heads[0], datas[0], tails[0]]) + [ast.Return(value=writes[written.index('head + data + tail')].args[0])]
    fn = _synth('pn53x_build', ['cmd_code', 'cmd_data'], body)
    return py2coq.Fn(fn, {'cmd_code': I, 'cmd_data': B}, consts={'self.SOF': sof}, coqname='gen_pn53x_build').translate()


def acr122_build(repo):
    tree = ast.parse(open(os.path.join(repo, 'src/nfc/clf/acr122.py')).read())
    cmd = _cls_method(tree, 'Chipset', 'command')
    xfr = _cls_method(tree, 'Chipset', 'ccid_xfr_block')
    fr = [s for s in cmd.body if _is_name_assign(s, 'frame')]
    if len(fr) < 3 or 'ccid_xfr_block' not in ast.unparse(fr[2].value):
        raise Unsupported('acr122 command: frame statements')
    xf = [s for s in xfr.body if _is_name_assign(s, 'frame')]
    if not xf or 'pack' not in ast.unparse(xf[0].value):
        raise Unsupported('ccid_xfr_block: header statement')
    wr = [n for n in ast.walk(xfr) if isinstance(n, ast.Call) and isinstance(n.func, ast.Attribute) and n.func.attr == 'write']
    if len(wr) != 1 or ast.unparse(wr[0].args[0]) not in ('bytearray(frame)', 'frame'):
        raise Unsupported('ccid_xfr_block: write call')
    if cmd.body.index(fr[0]) + 1 != cmd.body.index(fr[1]):
        raise Unsupported('acr122 command: statements between the two frame assignments')
    # command(): frame := D4 cmd + data ; frame := FF 00 00 00 len + frame ; ccid: data := frame ; frame := header + data
    body = [fr[0], fr[1], ast.Assign(targets=[ast.Name(id='data', ctx=ast.Store())], value=ast.Name(id='frame', ctx=ast.Load())),
            xf[0], ast.Return(value=ast.Name(id='frame', ctx=ast.Load()))]
    fn = _synth('acr122_build', ['cmd_code', 'cmd_data'], body)
    return py2coq.Fn(fn, {'cmd_code': I, 'cmd_data': B}, coqname='gen_acr122_build').translate()


def rcs380_build(repo):
    tree = ast.parse(open(os.path.join(repo, 'src/nfc/clf/rcs380.py')).read())
    init = _cls_method(tree, 'Frame', '__init__')
    ifs = [s for s in init.body if isinstance(s, ast.If)]
    if len(ifs) != 1 or not ifs[0].orelse:
        raise Unsupported('Frame.__init__: if/else')
    enc = ifs[0].orelse
    if not _is_name_assign(enc[0], 'frame'):
        raise Unsupported('Frame.__init__: encode branch')
    last = enc[-1]
    if not (isinstance(last, ast.Assign) and ast.unparse(last.targets[0]) == 'self._frame' and ast.unparse(last.value) == 'frame'):
        raise Unsupported('Frame.__init__: self._frame = frame')
    body = list(enc[:-1]) + [ast.Return(value=ast.Name(id='frame', ctx=ast.Load()))]
    fn = _synth('rcs380_build', ['data'], body)
    return py2coq.Fn(fn, {'data': B}, coqname='gen_rcs380_build').translate()


class _ParseFn(py2coq.Fn):
    """expression translator for the response validation of Chipset.command (frame : bytes, cmd_code : int)"""

    def expr(self, e, env):
        # frame.startswith(x)
        if isinstance(e, ast.Call) and isinstance(e.func, ast.Attribute) and e.func.attr == 'startswith' \
                and isinstance(e.func.value, ast.Name) and len(e.args) == 1 and not e.keywords:
            a, ta = self.expr(e.func.value, env)
            b, tb = self.expr(e.args[0], env)
            if ta != B or tb != B:
                raise Unsupported('startswith operands')
            return '(py_startswith %s %s)' % (a, b), 'bool'
        # unpack(">H", memoryview(x))[0]  /  unpack(">H", x)[0]
        if isinstance(e, ast.Subscript) and isinstance(e.value, ast.Call) and ast.unparse(e.value.func) in ('unpack', 'struct.unpack') \
                and isinstance(e.slice, ast.Constant) and e.slice.value == 0 and len(e.value.args) == 2 \
                and isinstance(e.value.args[0], ast.Constant) and e.value.args[0].value == '>H':
            arg = e.value.args[1]
            if isinstance(arg, ast.Call) and ast.unparse(arg.func) == 'memoryview' and len(arg.args) == 1:
                arg = arg.args[0]
            a, ta = self.expr(arg, env)
            if ta != B:
                raise Unsupported('unpack operand')
            return '(unpack_be16 %s)' % a, I
        # struct.unpack("<I", memoryview(x)[a:b])[0]
        if isinstance(e, ast.Subscript) and isinstance(e.value, ast.Call) and ast.unparse(e.value.func) in ('unpack', 'struct.unpack') \
                and isinstance(e.slice, ast.Constant) and e.slice.value == 0 and len(e.value.args) == 2 \
                and isinstance(e.value.args[0], ast.Constant) and e.value.args[0].value == '<I':
            arg = e.value.args[1]
            if isinstance(arg, ast.Subscript) and isinstance(arg.value, ast.Call) and ast.unparse(arg.value.func) == 'memoryview' \
                    and len(arg.value.args) == 1:
                arg = ast.Subscript(value=arg.value.args[0], slice=arg.slice, ctx=ast.Load())
            a, ta = self.expr(arg, env)
            if ta != B:
                raise Unsupported('unpack operand')
            return '(unpack_le32 %s)' % a, I
        # self.check_crc_a(x) is False   (check_crc_a is the kernel gen_check_crc_a of Gen/Crc.v)
        if isinstance(e, ast.Compare) and len(e.ops) == 1 and isinstance(e.ops[0], ast.Is) \
                and isinstance(e.comparators[0], ast.Constant) and e.comparators[0].value is False \
                and isinstance(e.left, ast.Call) and ast.unparse(e.left.func) == 'self.check_crc_a' and len(e.left.args) == 1:
            a, ta = self.expr(e.left.args[0], env)
            if ta != B:
                raise Unsupported('check_crc_a operand')
            return '(negb (gen_check_crc_a %s))' % a, 'bool'
        if isinstance(e, ast.IfExp):
            c = self.truth(*self.expr(e.test, env))
            a, ta = self.expr(e.body, env)
            b, tb = self.expr(e.orelse, env)
            if ta != tb:
                raise Unsupported('conditional expression types')
            return '(if %s then %s else %s)' % (c, a, b), ta
        return super().expr(e, env)


def _is_log(s):
    return isinstance(s, ast.Expr) and isinstance(s.value, ast.Call) and (ast.unparse(s.value.func).startswith('self.log.') or
                                                                          ast.unparse(s.value.func).startswith('log.'))


def _terminal(stmts):
    last = [x for x in stmts if not _is_log(x)]
    if not last:
        return False
    t = last[-1]
    if isinstance(t, (ast.Raise, ast.Return)):
        return True
    return isinstance(t, ast.Expr) and ast.unparse(t.value).startswith('self.chipset_error(')


def _parse_block(fn, stmts, env, rest):
    """stmts followed by the (already translated) continuation text `rest` (None = function end)"""
    stmts = [x for x in stmts if not _is_log(x)]
    if not stmts:
        if rest is None:
            raise Unsupported('response validation may fall off the end')
        return rest
    s, tail = stmts[0], stmts[1:]
    k = lambda: _parse_block(fn, tail, env, rest)   # noqa: E731
    if isinstance(s, ast.Raise):
        if not tail and isinstance(s.exc, ast.Call) and ast.unparse(s.exc.func) == 'nfc.clf.TransmissionError':
            return '(Err TransmissionError)'
        if tail or ast.unparse(s.exc) != 'IOError(errno.EIO, os.strerror(errno.EIO))':
            raise Unsupported('raise form: ' + ast.unparse(s))
        return '(Err IOErr)'
    if isinstance(s, ast.Expr) and ast.unparse(s.value).startswith('self.chipset_error('):
        a = s.value.args
        if tail or len(a) != 1 or not isinstance(a[0], ast.Constant) or not isinstance(a[0].value, int):
            raise Unsupported('chipset_error form')
        return '(Err (ChipsetError %d))' % a[0].value
    if isinstance(s, ast.Return):
        if tail:
            raise Unsupported('code after return')
        t, ty = fn.expr(s.value, env)
        if ty != B:
            raise Unsupported('return type')
        return '(Ok %s)' % t
    if isinstance(s, ast.Delete):
        if len(s.targets) != 1 or not isinstance(s.targets[0], ast.Subscript) or ast.unparse(s.targets[0].value) != 'frame' \
                or not isinstance(s.targets[0].slice, ast.Slice):
            raise Unsupported('del form')
        sl = s.targets[0].slice
        if ast.unparse(sl.lower) != '0' or sl.step is not None:
            raise Unsupported('del slice')
        n, ty = fn.expr(sl.upper, env)
        return '(let frame := pyslice frame %s (len frame) in\n%s)' % (n, k())
    if isinstance(s, ast.If):
        c = fn.truth(*fn.expr(s.test, env))
        cont = k()
        tb = _parse_block(fn, s.body, env, cont)
        eb = _parse_block(fn, s.orelse, env, cont) if s.orelse else cont
        return '(if %s\n then %s\n else %s)' % (c, tb, eb)
    raise Unsupported('statement in response validation: ' + type(s).__name__)


def pn53x_parse(repo):
    tree = ast.parse(open(os.path.join(repo, 'src/nfc/clf/pn53x.py')).read())
    cmd = _cls_method(tree, 'Chipset', 'command')
    sof = _class_const_bytes(tree, 'Chipset', 'SOF')
    body = cmd.body
    # the validation starts after the `while frame == self.ACK` loop and runs to the end of the method
    loops = [i for i, x in enumerate(body) if isinstance(x, ast.While) and ast.unparse(x.test) == 'frame == self.ACK']
    if len(loops) != 1:
        raise Unsupported('Chipset.command: ACK wait loop')
    tail = body[loops[0] + 1:]
    fn = _ParseFn(_synth('x', ['cmd_code', 'frame'], [ast.Pass()]), {'cmd_code': I, 'frame': B}, consts={'self.SOF': sof})
    env = {'cmd_code': (I, True), 'frame': (B, True)}
    text = _parse_block(fn, tail, env, None)
    return 'Definition gen_pn53x_parse (cmd_code : Z) (frame : list Z) : res (list Z) :=\n  %s.\n' % text


def acr122_parse(repo):
    tree = ast.parse(open(os.path.join(repo, 'src/nfc/clf/acr122.py')).read())
    xfr = _cls_method(tree, 'Chipset', 'ccid_xfr_block')
    cmd = _cls_method(tree, 'Chipset', 'command')
    # ccid_xfr_block: everything after `frame = self.transport.read(...)`
    rd = [i for i, x in enumerate(xfr.body) if _is_name_assign(x, 'frame') and 'self.transport.read(' in ast.unparse(x.value)]
    if len(rd) != 1:
        raise Unsupported('ccid_xfr_block: transport.read statement')
    fn = _ParseFn(_synth('x', ['cmd_code', 'frame'], [ast.Pass()]), {'cmd_code': I, 'frame': B})
    env = {'cmd_code': (I, True), 'frame': (B, True)}
    t1 = _parse_block(fn, xfr.body[rd[0] + 1:], env, None)
    # command: everything after `frame = self.ccid_xfr_block(frame, timeout)`
    cx = [i for i, x in enumerate(cmd.body) if _is_name_assign(x, 'frame') and 'self.ccid_xfr_block(' in ast.unparse(x.value)]
    if len(cx) != 1:
        raise Unsupported('acr122 command: ccid_xfr_block call')
    t2 = _parse_block(fn, cmd.body[cx[0] + 1:], env, None)
    return ('Definition gen_ccid_parse (frame : list Z) : res (list Z) :=\n  %s.\n\n'
            'Definition gen_acr122_rsp_parse (cmd_code : Z) (frame : list Z) : res (list Z) :=\n  %s.\n' % (t1, t2))


def _expr_with(src_text, env_types):
    """translate one Python expression text over the given typed names"""
    e = ast.parse(src_text, mode='eval').body
    fn = _ParseFn(_synth('x', list(env_types), [ast.Pass()]), dict(env_types))
    env = {k: (t, True) for k, t in env_types.items()}
    return fn.expr(e, env)


def crc_paths(repo):
    """Who verifies CRC_A on a Type A target of the PN53x family: sense_tta clears RxCRCEn in the chip for some SEL_RES
    values, send_cmd_recv_rsp must then take the software path _tt2_send_cmd_recv_rsp for exactly those targets."""
    tree = ast.parse(open(os.path.join(repo, 'src/nfc/clf/pn53x.py')).read())
    sense = _cls_method(tree, 'Device', 'sense_tta')
    xchg = _cls_method(tree, 'Device', 'send_cmd_recv_rsp')
    tt2 = _cls_method(tree, 'Device', '_tt2_send_cmd_recv_rsp')
    # (1) the `if` in sense_tta that switches the chip's receive CRC check off, and the value it writes
    offs = [n for n in ast.walk(sense) if isinstance(n, ast.If) and any(isinstance(b, ast.Expr) and 'CIU_RxMode' in ast.unparse(b) and 'write_register' in ast.unparse(b)
                                                                         for b in n.body)]
    if len(offs) != 1 or offs[0].orelse:
        raise Unsupported('sense_tta: the statement that disables the chip crc check')
    body = [b for b in offs[0].body if not _is_log(b)]
    if len(body) != 2 or ast.unparse(body[0]) != "rxmode = self.chipset.read_register('CIU_RxMode')" \
            or not (isinstance(body[1], ast.Expr) and isinstance(body[1].value, ast.Call)
                    and ast.unparse(body[1].value.func) == 'self.chipset.write_register' and len(body[1].value.args) == 2
                    and ast.unparse(body[1].value.args[0]) == "'CIU_RxMode'"):
        raise Unsupported('sense_tta: shape of the crc switch-off')
    # any other write to CIU_RxMode in sense_tta would change who checks
    if sum('CIU_RxMode' in ast.unparse(n) for n in ast.walk(sense) if isinstance(n, ast.Call) and 'write_register' in ast.unparse(n.func)) != 1:
        raise Unsupported('sense_tta: more than one write to CIU_RxMode')
    t_off, ty = _expr_with(ast.unparse(offs[0].test), {'sel_res': B})
    t_val, tv = _expr_with(ast.unparse(body[1].value.args[1]), {'rxmode': I})
    if ty != 'bool' or tv != I:
        raise Unsupported('sense_tta: types')
    # (2) the dispatch in send_cmd_recv_rsp
    outer = [n for n in ast.walk(xchg) if isinstance(n, ast.If) and ast.unparse(n.test) == 'target.sens_res and (not target.atr_res)']
    if len(outer) != 1 or outer[0].orelse or len(outer[0].body) != 2:
        raise Unsupported('send_cmd_recv_rsp: Type A passive target branch')
    tt1_if, tt2_if = outer[0].body
    if not (isinstance(tt1_if, ast.If) and ast.unparse(tt1_if.test) == 'target.rid_res' and not tt1_if.orelse
            and len(tt1_if.body) == 1 and ast.unparse(tt1_if.body[0]).startswith('return self._tt1_send_cmd_recv_rsp(')):
        raise Unsupported('send_cmd_recv_rsp: Type 1 Tag branch')
    if not (isinstance(tt2_if, ast.If) and not tt2_if.orelse and len(tt2_if.body) == 1
            and ast.unparse(tt2_if.body[0]) == 'return self._tt2_send_cmd_recv_rsp(data, timeout + 0.1)'):
        raise Unsupported('send_cmd_recv_rsp: Type 2 Tag branch')
    if sum(1 for n in ast.walk(xchg) if isinstance(n, ast.Call) and ast.unparse(n.func) == 'self._tt2_send_cmd_recv_rsp') != 1:
        raise Unsupported('send_cmd_recv_rsp: calls of _tt2_send_cmd_recv_rsp')
    t_sw, ty = _expr_with(ast.unparse(tt2_if.test).replace('target.sel_res', 'sel_res'), {'sel_res': B})
    if ty != 'bool':
        raise Unsupported('send_cmd_recv_rsp: type')
    # (3) the software check: everything after `data = self.chipset.in_communicate_thru(data, timeout)`
    b = [x for x in tt2.body if not (isinstance(x, ast.Expr) and isinstance(x.value, ast.Constant))]
    if not b or ast.unparse(b[0]) != 'data = self.chipset.in_communicate_thru(data, timeout)':
        raise Unsupported('_tt2_send_cmd_recv_rsp: first statement')
    fn = _ParseFn(_synth('x', ['data'], [ast.Pass()]), {'data': B})
    t_rsp = _parse_block(fn, b[1:], {'data': (B, True)}, None)
    # the drivers of the family must not override any of the three
    for mod in ('pn531', 'pn532', 'pn533', 'rcs956', 'acr122', 'arygon'):
        t2 = ast.parse(open(os.path.join(repo, 'src/nfc/clf/%s.py' % mod)).read())
        for c in [n for n in t2.body if isinstance(n, ast.ClassDef)]:
            for f in [n for n in c.body if isinstance(n, ast.FunctionDef)]:
                if f.name in ('_tt2_send_cmd_recv_rsp', 'send_cmd_recv_rsp'):
                    fb = [x for x in f.body if not (isinstance(x, ast.Expr) and isinstance(x.value, ast.Constant))]
                    args = ', '.join(a.arg for a in f.args.args[1:])
                    if len(fb) != 1 or ast.unparse(fb[0]) != 'return super(Device, self).%s(%s)' % (f.name, args):
                        raise Unsupported('%s.%s overrides %s' % (mod, c.name, f.name))   # anything but pure delegation
                if f.name == 'sense_tta' and ('CIU_RxMode' in ast.unparse(f) or 'sel_res' in ast.unparse(f)):
                    raise Unsupported('%s.%s.sense_tta touches CIU_RxMode / sel_res' % (mod, c.name))
    return ('Definition gen_chip_crc_off (sel_res : list Z) : bool :=\n  %s.\n\n'
            'Definition gen_rxmode_off (rxmode : Z) : Z :=\n  %s.\n\n'
            'Definition gen_sw_crc_path (sel_res : list Z) : bool :=\n  %s.\n\n'
            'Definition gen_tt2_rsp (data : list Z) : res (list Z) :=\n  %s.\n' % (t_off, t_val, t_sw, t_rsp))


def generate_crc_paths(repo):
    head = py2coq.PRELUDE % {'src': 'src/nfc/clf/pn53x.py (who verifies CRC_A: sense_tta / send_cmd_recv_rsp / _tt2_send_cmd_recv_rsp)'}
    return head + 'From NV Require Import Gen.Crc.\n\n' + crc_paths(repo)


def generate(repo):
    out = [py2coq.PRELUDE % {'src': 'src/nfc/clf/pn53x.py, acr122.py, rcs380.py (frame construction statements)'}]
    for g in (pn53x_build, acr122_build, rcs380_build, pn53x_parse, acr122_parse):
        out.append(g(repo))
        out.append('\n')
    return ''.join(out)


generate.SOURCE = 'src/nfc/clf/{pn53x,acr122,rcs380}.py'
KERNELS = {'FramesK': generate, 'CrcPathK': generate_crc_paths}
