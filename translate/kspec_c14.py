"""C14: frame construction kernels cut out of the driver methods (fail closed on any change of shape).

  gen_pn53x_build cmd_code cmd_data   <- Chipset.command: the `head`/`data`/`tail` statements and the frame that is written
  gen_acr122_build cmd_code cmd_data  <- acr122.Chipset.command + ccid_xfr_block: pseudo APDU and CCID header
  gen_rcs380_build data               <- rcs380.Frame.__init__ (encode branch)
"""
import ast
import copy
import os
import sys

sys.path.insert(0, os.path.dirname(os.path.abspath(__file__)))
import py2coq  # noqa: E402
from py2coq import Unsupported  # noqa: E402

I, B = 'int', 'bytes'


def _cls_method(tree, cls, meth):
    return py2coq.find_function(tree, cls + '.' + meth)


def _class_const_bytes(tree, cls, name):
    for n in tree.body:
        if isinstance(n, ast.ClassDef) and n.name == cls:
            for st in n.body:
                if isinstance(st, ast.Assign) and len(st.targets) == 1 and isinstance(st.targets[0], ast.Name) \
                        and st.targets[0].id == name:
                    v = st.value
                    if isinstance(v, ast.Call) and isinstance(v.func, ast.Name) and v.func.id in ('bytearray', 'bytes') \
                            and len(v.args) == 1 and isinstance(v.args[0], ast.Constant) and isinstance(v.args[0].value, bytes):
                        return v.args[0].value
                    if isinstance(v, ast.Constant) and isinstance(v.value, bytes):
                        return v.value
                    if isinstance(v, ast.Call) and ast.unparse(v.func) in ('bytearray.fromhex', 'bytes.fromhex') \
                            and len(v.args) == 1 and isinstance(v.args[0], ast.Constant) and isinstance(v.args[0].value, str):
                        return bytes.fromhex(v.args[0].value)
    raise Unsupported('class constant %s.%s' % (cls, name))


def _append_to_assign(stmts):
    """x.append(e)  ->  x = x + bytearray([e])"""
    out = []
    for s in stmts:
        if isinstance(s, ast.Expr) and isinstance(s.value, ast.Call) and isinstance(s.value.func, ast.Attribute) \
                and s.value.func.attr == 'append' and isinstance(s.value.func.value, ast.Name) and len(s.value.args) == 1:
            x = s.value.func.value.id
            lst = ast.Call(func=ast.Name(id='bytearray', ctx=ast.Load()), args=[ast.List(elts=[s.value.args[0]], ctx=ast.Load())], keywords=[])
            out.append(ast.Assign(targets=[ast.Name(id=x, ctx=ast.Store())],
                                  value=ast.BinOp(left=ast.Name(id=x, ctx=ast.Load()), op=ast.Add(), right=lst)))
        elif isinstance(s, ast.If):
            s2 = copy.copy(s)
            s2.body = _append_to_assign(s.body)
            s2.orelse = _append_to_assign(s.orelse)
            out.append(s2)
        else:
            out.append(s)
    return out


def _is_name_assign(s, name):
    return isinstance(s, ast.Assign) and len(s.targets) == 1 and isinstance(s.targets[0], ast.Name) and s.targets[0].id == name


def _synth(name, args, body):
    fn = ast.FunctionDef(name=name, args=ast.arguments(posonlyargs=[], args=[ast.arg(arg=a) for a in args], vararg=None,
                                                       kwonlyargs=[], kw_defaults=[], kwarg=None, defaults=[]),
                         body=body, decorator_list=[])
    return ast.fix_missing_locations(fn)


def pn53x_build(repo):
    tree = ast.parse(open(os.path.join(repo, 'src/nfc/clf/pn53x.py')).read())
    cmd = _cls_method(tree, 'Chipset', 'command')
    sof = _class_const_bytes(tree, 'Chipset', 'SOF')
    outer = [s for s in cmd.body if isinstance(s, ast.If) and ast.unparse(s.test) == 'cmd_data is not None']
    if len(outer) != 1:
        raise Unsupported('Chipset.command: `if cmd_data is not None` block')
    blk = outer[0].body
    heads = [s for s in blk if isinstance(s, ast.If) and 'len(cmd_data)' in ast.unparse(s.test)]
    datas = [s for s in blk if _is_name_assign(s, 'data')]
    tails = [s for s in blk if _is_name_assign(s, 'tail')]
    if len(heads) != 1 or len(datas) != 1 or len(tails) != 1:
        raise Unsupported('Chipset.command: head/data/tail statements')
    if blk.index(heads[0]) > blk.index(datas[0]) or blk.index(datas[0]) > blk.index(tails[0]):
        raise Unsupported('Chipset.command: order of head/data/tail')
    writes = [n for n in ast.walk(outer[0]) if isinstance(n, ast.Call) and isinstance(n.func, ast.Attribute)
              and n.func.attr == 'write_frame' and len(n.args) == 1]
    written = [ast.unparse(w.args[0]) for w in writes]
    if 'head + data + tail' not in written:
        raise Unsupported('Chipset.command: frame written is not head + data + tail')
    body = _append_to_assign([heads[0], datas[0], tails[0]]) + [ast.Return(value=writes[written.index('head + data + tail')].args[0])]
    fn = _synth('pn53x_build', ['cmd_code', 'cmd_data'], body)
    return py2coq.Fn(fn, {'cmd_code': I, 'cmd_data': B}, consts={'self.SOF': sof}, coqname='gen_pn53x_build').translate()


def acr122_build(repo):
    tree = ast.parse(open(os.path.join(repo, 'src/nfc/clf/acr122.py')).read())
    cmd = _cls_method(tree, 'Chipset', 'command')
    xfr = _cls_method(tree, 'Chipset', 'ccid_xfr_block')
    fr = [s for s in cmd.body if _is_name_assign(s, 'frame')]
    if len(fr) < 3 or 'ccid_xfr_block' not in ast.unparse(fr[2].value):
        raise Unsupported('acr122 command: frame statements')
    xf = [s for s in xfr.body if _is_name_assign(s, 'frame')]
    if not xf or 'pack' not in ast.unparse(xf[0].value):
        raise Unsupported('ccid_xfr_block: header statement')
    wr = [n for n in ast.walk(xfr) if isinstance(n, ast.Call) and isinstance(n.func, ast.Attribute) and n.func.attr == 'write']
    if len(wr) != 1 or ast.unparse(wr[0].args[0]) not in ('bytearray(frame)', 'frame'):
        raise Unsupported('ccid_xfr_block: write call')
    if cmd.body.index(fr[0]) + 1 != cmd.body.index(fr[1]):
        raise Unsupported('acr122 command: statements between the two frame assignments')
    # command(): frame := D4 cmd + data ; frame := FF 00 00 00 len + frame ; ccid: data := frame ; frame := header + data
    body = [fr[0], fr[1], ast.Assign(targets=[ast.Name(id='data', ctx=ast.Store())], value=ast.Name(id='frame', ctx=ast.Load())),
            xf[0], ast.Return(value=ast.Name(id='frame', ctx=ast.Load()))]
    fn = _synth('acr122_build', ['cmd_code', 'cmd_data'], body)
    return py2coq.Fn(fn, {'cmd_code': I, 'cmd_data': B}, coqname='gen_acr122_build').translate()


def rcs380_build(repo):
    tree = ast.parse(open(os.path.join(repo, 'src/nfc/clf/rcs380.py')).read())
    init = _cls_method(tree, 'Frame', '__init__')
    ifs = [s for s in init.body if isinstance(s, ast.If)]
    if len(ifs) != 1 or not ifs[0].orelse:
        raise Unsupported('Frame.__init__: if/else')
    enc = ifs[0].orelse
    if not _is_name_assign(enc[0], 'frame'):
        raise Unsupported('Frame.__init__: encode branch')
    last = enc[-1]
    if not (isinstance(last, ast.Assign) and ast.unparse(last.targets[0]) == 'self._frame' and ast.unparse(last.value) == 'frame'):
        raise Unsupported('Frame.__init__: self._frame = frame')
    body = list(enc[:-1]) + [ast.Return(value=ast.Name(id='frame', ctx=ast.Load()))]
    fn = _synth('rcs380_build', ['data'], body)
    return py2coq.Fn(fn, {'data': B}, coqname='gen_rcs380_build').translate()


class _ParseFn(py2coq.Fn):
    """expression translator for the response validation of Chipset.command (frame : bytes, cmd_code : int)"""

    def expr(self, e, env):
        # frame.startswith(x)
        if isinstance(e, ast.Call) and isinstance(e.func, ast.Attribute) and e.func.attr == 'startswith' \
                and isinstance(e.func.value, ast.Name) and len(e.args) == 1 and not e.keywords:
            a, ta = self.expr(e.func.value, env)
            b, tb = self.expr(e.args[0], env)
            if ta != B or tb != B:
                raise Unsupported('startswith operands')
            return '(py_startswith %s %s)' % (a, b), 'bool'
        # unpack(">H", memoryview(x))[0]  /  unpack(">H", x)[0]
        if isinstance(e, ast.Subscript) and isinstance(e.value, ast.Call) and ast.unparse(e.value.func) in ('unpack', 'struct.unpack') \
                and isinstance(e.slice, ast.Constant) and e.slice.value == 0 and len(e.value.args) == 2 \
                and isinstance(e.value.args[0], ast.Constant) and e.value.args[0].value == '>H':
            arg = e.value.args[1]
            if isinstance(arg, ast.Call) and ast.unparse(arg.func) == 'memoryview' and len(arg.args) == 1:
                arg = arg.args[0]
            a, ta = self.expr(arg, env)
            if ta != B:
                raise Unsupported('unpack operand')
            return '(unpack_be16 %s)' % a, I
        # struct.unpack("<I", memoryview(x)[a:b])[0]
        if isinstance(e, ast.Subscript) and isinstance(e.value, ast.Call) and ast.unparse(e.value.func) in ('unpack', 'struct.unpack') \
                and isinstance(e.slice, ast.Constant) and e.slice.value == 0 and len(e.value.args) == 2 \
                and isinstance(e.value.args[0], ast.Constant) and e.value.args[0].value == '<I':
            arg = e.value.args[1]
            if isinstance(arg, ast.Subscript) and isinstance(arg.value, ast.Call) and ast.unparse(arg.value.func) == 'memoryview' \
                    and len(arg.value.args) == 1:
                arg = ast.Subscript(value=arg.value.args[0], slice=arg.slice, ctx=ast.Load())
            a, ta = self.expr(arg, env)
            if ta != B:
                raise Unsupported('unpack operand')
            return '(unpack_le32 %s)' % a, I
        return super().expr(e, env)


def _is_log(s):
    return isinstance(s, ast.Expr) and isinstance(s.value, ast.Call) and (ast.unparse(s.value.func).startswith('self.log.') or
                                                                          ast.unparse(s.value.func).startswith('log.'))


def _terminal(stmts):
    last = [x for x in stmts if not _is_log(x)]
    if not last:
        return False
    t = last[-1]
    if isinstance(t, (ast.Raise, ast.Return)):
        return True
    return isinstance(t, ast.Expr) and ast.unparse(t.value).startswith('self.chipset_error(')


def _parse_block(fn, stmts, env, rest):
    """stmts followed by the (already translated) continuation text `rest` (None = function end)"""
    stmts = [x for x in stmts if not _is_log(x)]
    if not stmts:
        if rest is None:
            raise Unsupported('response validation may fall off the end')
        return rest
    s, tail = stmts[0], stmts[1:]
    k = lambda: _parse_block(fn, tail, env, rest)   # noqa: E731
    if isinstance(s, ast.Raise):
        if tail or ast.unparse(s.exc) != 'IOError(errno.EIO, os.strerror(errno.EIO))':
            raise Unsupported('raise form: ' + ast.unparse(s))
        return '(Err IOErr)'
    if isinstance(s, ast.Expr) and ast.unparse(s.value).startswith('self.chipset_error('):
        a = s.value.args
        if tail or len(a) != 1 or not isinstance(a[0], ast.Constant) or not isinstance(a[0].value, int):
            raise Unsupported('chipset_error form')
        return '(Err (ChipsetError %d))' % a[0].value
    if isinstance(s, ast.Return):
        if tail:
            raise Unsupported('code after return')
        t, ty = fn.expr(s.value, env)
        if ty != B:
            raise Unsupported('return type')
        return '(Ok %s)' % t
    if isinstance(s, ast.Delete):
        if len(s.targets) != 1 or not isinstance(s.targets[0], ast.Subscript) or ast.unparse(s.targets[0].value) != 'frame' \
                or not isinstance(s.targets[0].slice, ast.Slice):
            raise Unsupported('del form')
        sl = s.targets[0].slice
        if ast.unparse(sl.lower) != '0' or sl.step is not None:
            raise Unsupported('del slice')
        n, ty = fn.expr(sl.upper, env)
        return '(let frame := pyslice frame %s (len frame) in\n%s)' % (n, k())
    if isinstance(s, ast.If):
        c = fn.truth(*fn.expr(s.test, env))
        cont = k()
        tb = _parse_block(fn, s.body, env, cont)
        eb = _parse_block(fn, s.orelse, env, cont) if s.orelse else cont
        return '(if %s\n then %s\n else %s)' % (c, tb, eb)
    raise Unsupported('statement in response validation: ' + type(s).__name__)


def pn53x_parse(repo):
    tree = ast.parse(open(os.path.join(repo, 'src/nfc/clf/pn53x.py')).read())
    cmd = _cls_method(tree, 'Chipset', 'command')
    sof = _class_const_bytes(tree, 'Chipset', 'SOF')
    body = cmd.body
    # the validation starts after the `while frame == self.ACK` loop and runs to the end of the method
    loops = [i for i, x in enumerate(body) if isinstance(x, ast.While) and ast.unparse(x.test) == 'frame == self.ACK']
    if len(loops) != 1:
        raise Unsupported('Chipset.command: ACK wait loop')
    tail = body[loops[0] + 1:]
    fn = _ParseFn(_synth('x', ['cmd_code', 'frame'], [ast.Pass()]), {'cmd_code': I, 'frame': B}, consts={'self.SOF': sof})
    env = {'cmd_code': (I, True), 'frame': (B, True)}
    text = _parse_block(fn, tail, env, None)
    return 'Definition gen_pn53x_parse (cmd_code : Z) (frame : list Z) : res (list Z) :=\n  %s.\n' % text


def acr122_parse(repo):
    tree = ast.parse(open(os.path.join(repo, 'src/nfc/clf/acr122.py')).read())
    xfr = _cls_method(tree, 'Chipset', 'ccid_xfr_block')
    cmd = _cls_method(tree, 'Chipset', 'command')
    # ccid_xfr_block: everything after `frame = self.transport.read(...)`
    rd = [i for i, x in enumerate(xfr.body) if _is_name_assign(x, 'frame') and 'self.transport.read(' in ast.unparse(x.value)]
    if len(rd) != 1:
        raise Unsupported('ccid_xfr_block: transport.read statement')
    fn = _ParseFn(_synth('x', ['cmd_code', 'frame'], [ast.Pass()]), {'cmd_code': I, 'frame': B})
    env = {'cmd_code': (I, True), 'frame': (B, True)}
    t1 = _parse_block(fn, xfr.body[rd[0] + 1:], env, None)
    # command: everything after `frame = self.ccid_xfr_block(frame, timeout)`
    cx = [i for i, x in enumerate(cmd.body) if _is_name_assign(x, 'frame') and 'self.ccid_xfr_block(' in ast.unparse(x.value)]
    if len(cx) != 1:
        raise Unsupported('acr122 command: ccid_xfr_block call')
    t2 = _parse_block(fn, cmd.body[cx[0] + 1:], env, None)
    return ('Definition gen_ccid_parse (frame : list Z) : res (list Z) :=\n  %s.\n\n'
            'Definition gen_acr122_rsp_parse (cmd_code : Z) (frame : list Z) : res (list Z) :=\n  %s.\n' % (t1, t2))


def generate(repo):
    out = [py2coq.PRELUDE % {'src': 'src/nfc/clf/pn53x.py, acr122.py, rcs380.py (frame construction statements)'}]
    for g in (pn53x_build, acr122_build, rcs380_build, pn53x_parse, acr122_parse):
        out.append(g(repo))
        out.append('\n')
    return ''.join(out)


generate.SOURCE = 'src/nfc/clf/{pn53x,acr122,rcs380}.py'
KERNELS = {'FramesK': generate}
