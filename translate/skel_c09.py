"""Skeleton extractor for C09 (wait/notify discipline of the LLCP socket objects).

generate(repo_root) parses src/nfc/llcp/tco.py and src/nfc/llcp/llc.py with `ast` and reduces every
method of the three socket classes (RawAccessPoint, LogicalDataLink, DataLinkConnection; inherited
methods included, `super(...)` calls and calls of other methods of the same object inlined along
the MRO) and of ServiceDiscovery to a statement of coq/Skel/WaitSyntax.v:

  with self.lock / self.<condition> / self.llc.lock:      -> With
  self.<condition>.wait(..) / notify_all() / notify()     -> Wait c / NotifyAll c / Notify c
  self.state.SHUTDOWN = True, self.snl = None              -> Shut
  self.state.<other> = True                                -> SetOpen
  tests: self.state.SHUTDOWN, self.snl is None             -> GShut
         self.state.<other>, self.snl is not None          -> GOpen
         not / and / or                                    -> GNot / GAnd / GOr,   anything else -> GAny
  return / raise                                           -> Exit
  <queue>.popleft(), self.snl[..] / self.sent[..] loads, assert -> May  (may raise)
  super(C, self).m(..), self.m(..)                         -> Try <body of m> Skip, followed by May when
        the body of m can raise (return is an abrupt exit caught at the call boundary)
  for / while                                              -> While; break / continue are abrupt exits
        caught by  While g (Seq (Try body Skip) May)  (only in loops without return / raise)
  everything else that is on the explicit PURE lists       -> Skip

FAIL CLOSED: every ast node type, every called name, every attribute of `self` that is written and
every method called on a value has to be on one of the lists below; anything else raises SkelError
(the generated file then does not compile and every obligation that depends on it breaks).
Trusted here: the lists (calling something pure that waits, notifies or changes the closed state).
"""
import ast
import os

TCO = 'src/nfc/llcp/tco.py'
LLC = 'src/nfc/llcp/llc.py'


class SkelError(Exception):
    pass


COND = {'send_ready': 'SendReady', 'recv_ready': 'RecvReady', 'acks_ready': 'AcksReady', 'send_token': 'SendToken',
        'resp': 'Resp'}
# attributes of self that hold plain data (reads and writes are not part of the skeleton)
DATA_FIELDS = {'recv_buf', 'send_buf', 'recv_miu', 'send_miu', 'recv_win', 'send_win', 'recv_cnt', 'recv_ack', 'send_cnt',
               'send_ack', 'acks_recvd', 'recv_confs', 'addr', 'peer', 'tids', 'sent', 'sdreq', 'sdres', 'dmpdu', 'mode',
               'send_queue', 'recv_queue', 'snl', 'llc', 'state', 'lock', 'names', 'value', 'DLC_PDU_NAMES'}
PURE_PROPS = {'send_window_slots', 'recv_window_slots', 'is_bound'}
# methods of data values that neither wait, notify nor touch the closed state
PURE_METHODS = {'append', 'appendleft', 'clear', 'format', 'remove', 'rotate', 'encode', 'index', 'get', 'from_pdu'}
MAY_METHODS = {'popleft', 'pop'}
PURE_FUNCS = {'len', 'isinstance', 'min', 'max', 'int', 'bool', 'str', 'bytes', 'range', 'list', 'dict', 'RuntimeError',
              'TypeError', 'ValueError', 'NotImplementedError', 'ACK', 'DataLinkConnection', 'RR_PDU', 'RNR_PDU'}
PURE_DOTTED_PREFIX = ('pdu.', 'err.', 'errno.', 'nfc.llcp.', 'log.', 'random.', 'collections.', 'threading.')
SELF_LOG = {'log', 'err'}            # DataLinkConnection.log / .err: logging helpers (checked: bodies only call log.*)


def dotted(e):
    if isinstance(e, ast.Name):
        return e.id
    if isinstance(e, ast.Attribute):
        b = dotted(e.value)
        return None if b is None else b + '.' + e.attr
    return None


class Ctx(object):
    def __init__(self, classes, mro, lock_names, stack=()):
        self.classes, self.mro, self.lock_names, self.stack = classes, mro, lock_names, stack

    def find(self, name, after=None):
        """method `name` along the MRO; after=C: start behind class C (super(C, self))"""
        order = self.mro
        if after is not None:
            order = order[order.index(after) + 1:]
        for c in order:
            for n in self.classes[c].body:
                if isinstance(n, ast.FunctionDef) and n.name == name:
                    return c, n
        return None


def seq(items):
    items = [i for i in items if i != 'Skip']
    if not items:
        return 'Skip'
    r = items[-1]
    for i in reversed(items[:-1]):
        r = '(Seq %s %s)' % (i, r)
    return r


def call_inline(cx, cls, fn):
    key = (cls, fn.name)
    if key in cx.stack:
        raise SkelError('recursive call of %s.%s' % key)
    sub = Ctx(cx.classes, cx.mro, cx.lock_names, cx.stack + (key,))
    body = block(sub, fn.body)
    # the callee's return is caught at the call boundary; if its body can raise (a raise statement or
    # an operation that may raise occurs in it) the exception may also propagate into the caller
    if 'ExitR' in body or 'May' in body:
        return '(Seq (Try %s Skip) May)' % body
    return '(Try %s Skip)' % body


def effects(cx, e):
    """statements for the effectful parts of an expression, in evaluation order; the rest must be pure"""
    if e is None or isinstance(e, (ast.Constant, ast.Name)):
        return []
    if isinstance(e, ast.Attribute):
        d = dotted(e)
        if d is not None and d.startswith('self.'):
            parts = d.split('.')
            if parts[1] in PURE_PROPS or parts[1] in DATA_FIELDS or parts[1] in COND:
                return []
            raise SkelError('read of self.%s' % parts[1])
        return effects(cx, e.value)
    if isinstance(e, ast.Subscript):
        d = dotted(e.value)
        pre = effects(cx, e.value) + effects(cx, e.slice)
        if d in ('self.snl', 'self.sent', 'self.llc.snl'):
            return pre + ['May']                   # KeyError
        return pre
    if isinstance(e, (ast.Tuple, ast.List)):
        return [s for x in e.elts for s in effects(cx, x)]
    if isinstance(e, ast.Slice):
        return effects(cx, e.lower) + effects(cx, e.upper) + effects(cx, e.step)
    if isinstance(e, ast.UnaryOp):
        return effects(cx, e.operand)
    if isinstance(e, ast.BinOp):
        return effects(cx, e.left) + effects(cx, e.right)
    if isinstance(e, ast.BoolOp):
        out = []
        for i, v in enumerate(e.values):
            ev = effects(cx, v)
            if ev and i > 0:
                raise SkelError('effect in a short-circuited operand')
            out += ev
        return out
    if isinstance(e, ast.Compare):
        return effects(cx, e.left) + [s for x in e.comparators for s in effects(cx, x)]
    if isinstance(e, ast.IfExp):
        tb, fb = effects(cx, e.body), effects(cx, e.orelse)
        pre, g = guard(cx, e.test)
        if not tb and not fb:
            return pre
        return pre + ['(If %s %s %s)' % (g, seq(tb), seq(fb))]
    if isinstance(e, ast.Call):
        return call(cx, e)
    if isinstance(e, ast.JoinedStr):
        return []
    raise SkelError('expression %s' % type(e).__name__)


def call(cx, e):
    args = [s for a in e.args for s in effects(cx, a)] + [s for k in e.keywords for s in effects(cx, k.value)]
    f = e.func
    # super(C, self).m(...)
    if isinstance(f, ast.Attribute) and isinstance(f.value, ast.Call) and dotted(f.value.func) == 'super':
        cname = f.value.args[0].id
        hit = cx.find(f.attr, after=cname)
        if hit is None:
            raise SkelError('super().%s not found' % f.attr)
        return args + [call_inline(cx, *hit)]
    d = dotted(f)
    if d is not None and d.startswith('self.'):
        parts = d.split('.')
        if len(parts) == 2:
            if parts[1] in SELF_LOG:
                return args
            hit = cx.find(parts[1])
            if hit is None:
                raise SkelError('self.%s() is not a method of the object' % parts[1])
            return args + [call_inline(cx, *hit)]
        if len(parts) == 3 and parts[1] in COND:
            c = COND[parts[1]]
            if parts[2] == 'wait':
                return args + ['(Wait %s)' % c]
            if parts[2] == 'notify_all':
                return args + ['(NotifyAll %s)' % c]
            if parts[2] == 'notify':
                return args + ['(Notify %s)' % c]
            raise SkelError('condition method ' + parts[2])
        if len(parts) == 3 and parts[1] in DATA_FIELDS:
            if parts[2] in MAY_METHODS:
                return args + ['May']
            if parts[2] in PURE_METHODS:
                return args
        raise SkelError('call of ' + d)
    if d is not None:
        if d in PURE_FUNCS or d.startswith(PURE_DOTTED_PREFIX):
            return args
        # method of a local data value (rcvd_pdu.x, send_pdu.encode(), "..".format, dlc.addr ...)
        if isinstance(f, ast.Attribute) and f.attr in PURE_METHODS | {'format'}:
            return args + effects(cx, f.value)
        raise SkelError('call of ' + d)
    if isinstance(f, ast.Attribute) and f.attr in PURE_METHODS | {'format'}:
        return args + effects(cx, f.value)
    raise SkelError('call of %s' % ast.dump(f)[:60])


def guard(cx, e):
    """(pre-statements, guard)"""
    if isinstance(e, ast.UnaryOp) and isinstance(e.op, ast.Not):
        pre, g = guard(cx, e.operand)
        return pre, '(GNot %s)' % g
    if isinstance(e, ast.BoolOp):
        pres, gs = [], []
        for i, v in enumerate(e.values):
            p, g = guard(cx, v)
            if p and i > 0:
                raise SkelError('effect in a short-circuited test')
            pres += p
            gs.append(g)
        op = 'GAnd' if isinstance(e.op, ast.And) else 'GOr'
        r = gs[-1]
        for g in reversed(gs[:-1]):
            r = '(%s %s %s)' % (op, g, r)
        return pres, r
    d = dotted(e)
    if d is not None and d.startswith('self.state.'):
        return [], ('GShut' if d == 'self.state.SHUTDOWN' else 'GOpen')
    if isinstance(e, ast.Compare) and dotted(e.left) == 'self.snl' and len(e.ops) == 1 \
            and isinstance(e.comparators[0], ast.Constant) and e.comparators[0].value is None:
        if isinstance(e.ops[0], ast.Is):
            return [], 'GShut'
        if isinstance(e.ops[0], ast.IsNot):
            return [], 'GOpen'
    return effects(cx, e), 'GAny'


def has(nodes, kinds, stop=(ast.For, ast.While, ast.FunctionDef)):
    for n in nodes:
        for m in ast.walk(n):
            if isinstance(m, kinds):
                return True
    return False


def loop(cx, g, body_nodes):
    inner_bc = any(isinstance(m, (ast.Break, ast.Continue)) for n in body_nodes for m in ast.walk(n))
    body = block(cx, body_nodes)
    if inner_bc:
        if has(body_nodes, (ast.Return, ast.Raise)):
            raise SkelError('loop with break/continue and return/raise')
        return '(While %s (Seq (Try %s Skip) May))' % (g, body)
    return '(While %s %s)' % (g, body)


def stmt(cx, n):
    if isinstance(n, ast.Pass):
        return 'Skip'
    if isinstance(n, ast.Expr):
        if isinstance(n.value, ast.Constant):
            return 'Skip'
        return seq(effects(cx, n.value))
    if isinstance(n, ast.Return):
        return seq(effects(cx, n.value) + ['Exit'])
    if isinstance(n, ast.Raise):
        return seq(effects(cx, n.exc) + ['ExitR'])       # printed as Exit (see generate)
    if isinstance(n, (ast.Break, ast.Continue)):
        return 'Exit'
    if isinstance(n, ast.Assert):
        return seq(effects(cx, n.test) + ['May'])
    if isinstance(n, (ast.Assign, ast.AugAssign)):
        pre = effects(cx, n.value)
        targets = n.targets if isinstance(n, ast.Assign) else [n.target]
        out = []
        for t in targets:
            for leaf in (t.elts if isinstance(t, ast.Tuple) else [t]):
                d = dotted(leaf if not isinstance(leaf, ast.Subscript) else leaf.value)
                if d is None:
                    raise SkelError('assignment target')
                if d.startswith('self.state.') and not isinstance(leaf, ast.Subscript):
                    out.append('Shut' if d == 'self.state.SHUTDOWN' else 'SetOpen')
                elif d == 'self.snl' and not isinstance(leaf, ast.Subscript):
                    if not (isinstance(n.value, ast.Constant) and n.value.value is None):
                        raise SkelError('self.snl assigned something else than None')
                    out.append('Shut')
                elif d.startswith('self.'):
                    if d.split('.')[1] not in DATA_FIELDS or d.split('.')[1] in ('state', 'lock', 'llc'):
                        raise SkelError('write of ' + d)
                # everything else: a local name or an attribute of a local object
        return seq(pre + out)
    if isinstance(n, ast.If):
        pre, g = guard(cx, n.test)
        return seq(pre + ['(If %s %s %s)' % (g, block(cx, n.body), block(cx, n.orelse))])
    if isinstance(n, ast.While):
        pre, g = guard(cx, n.test)
        if pre:
            raise SkelError('effect in a loop test')
        if n.orelse:
            raise SkelError('while/else')
        return loop(cx, g, n.body)
    if isinstance(n, ast.For):
        if n.orelse:
            raise SkelError('for/else')
        return seq(effects(cx, n.iter) + [loop(cx, 'GAny', n.body)])
    if isinstance(n, ast.With):
        for it in n.items:
            d = dotted(it.context_expr)
            if d not in cx.lock_names:
                raise SkelError('with %s' % d)
        r = block(cx, n.body)
        for _ in n.items:
            r = '(With %s)' % r
        return r
    if isinstance(n, ast.Try):
        if n.finalbody:
            raise SkelError('try/finally')
        hs = [block(cx, h.body) for h in n.handlers]
        h = hs[-1]
        for x in reversed(hs[:-1]):
            h = '(If GAny %s %s)' % (x, h)
        return seq(['(Try %s %s)' % (block(cx, n.body), h), block(cx, n.orelse)])
    raise SkelError('statement %s' % type(n).__name__)


def block(cx, nodes):
    return seq([stmt(cx, n) for n in nodes])


def class_conds(cls_nodes, mro):
    conds = []
    for c in mro:
        for n in cls_nodes[c].body:
            if isinstance(n, ast.FunctionDef) and n.name == '__init__':
                for m in ast.walk(n):
                    if isinstance(m, ast.Assign) and isinstance(m.value, ast.Call) and dotted(m.value.func) == 'threading.Condition':
                        d = dotted(m.targets[0])
                        if d is None or not d.startswith('self.') or d.split('.')[1] not in COND:
                            raise SkelError('unknown condition variable %s' % d)
                        conds.append(COND[d.split('.')[1]])
    return conds


def load(repo_root, rel):
    with open(os.path.join(repo_root, rel)) as f:
        tree = ast.parse(f.read())
    return {n.name: n for n in tree.body if isinstance(n, ast.ClassDef)}


# ---------------------------------------------------------------- the link run loops
# Obligation "every exit of run_as_initiator / run_as_target that ends the link calls terminate()":
#   * the function body ends in ONE try statement with handlers and a finally clause that only logs;
#   * inside the try body every `return` is `return self.terminate(reason=<string constant>)` and the
#     `while ... else:` clause calls self.terminate(reason=<constant>);
#   * every handler names its exception class(es) directly (KeyboardInterrupt, IOError, sec.<Error>) and its
#     body is: optionally `print()` and `self.link.<STATE> = True`, then `self.terminate(reason=<string
#     constant>)`, then a `raise <Name>`.  Nothing that can itself raise (a subscript, a dictionary or
#     attribute lookup on the exception, a call with computed arguments) may come before terminate():
#     otherwise an error inside the handler would leave the sockets open.
# Anything else makes the extraction FAIL (closed).  The handled classes are emitted into the Gen file and
# Bridge/C09Skel.v checks that the required ones are there.
RUN_LOOPS = ('run_as_initiator', 'run_as_target')
REQUIRED_HANDLED = ('KeyboardInterrupt', 'IOError', 'sec.KeyAgreementError', 'sec.DecryptionError', 'sec.EncryptionError')


def is_const_terminate(call):
    return (isinstance(call, ast.Call) and dotted(call.func) == 'self.terminate'
            and all(isinstance(a, ast.Constant) and isinstance(a.value, str) for a in call.args)
            and all(isinstance(k.value, ast.Constant) and isinstance(k.value.value, str) for k in call.keywords)
            and (call.args or call.keywords))


def is_log_call(n):
    return isinstance(n, ast.Expr) and isinstance(n.value, ast.Call) and (dotted(n.value.func) or '').startswith('log.')


def check_handler(fname, h):
    if h.type is None:
        raise SkelError('%s: bare except' % fname)
    types = h.type.elts if isinstance(h.type, ast.Tuple) else [h.type]
    names = []
    for t in types:
        d = dotted(t)
        if d is None or d.startswith('self.') or not (d in ('KeyboardInterrupt', 'IOError', 'OSError', 'EnvironmentError')
                                                      or d.startswith('sec.')):
            raise SkelError('%s: handler for a computed exception class (%s)' % (fname, ast.dump(t)[:60]))
        names.append(d)
    body = list(h.body)
    while body:
        n = body[0]
        if isinstance(n, ast.Expr) and isinstance(n.value, ast.Call) and dotted(n.value.func) == 'print' \
                and not n.value.args and not n.value.keywords:
            body.pop(0)
        elif isinstance(n, ast.Assign) and len(n.targets) == 1 and (dotted(n.targets[0]) or '').startswith('self.link.') \
                and isinstance(n.value, ast.Constant):
            body.pop(0)
        elif is_log_call(n) and all(isinstance(a, ast.Constant) for a in n.value.args):
            body.pop(0)
        else:
            break
    if not body or not (isinstance(body[0], ast.Expr) and is_const_terminate(body[0].value)):
        raise SkelError('%s: the handler for %s can raise before it calls self.terminate(reason=<constant>) '
                        '(found: %s)' % (fname, '/'.join(names), ast.dump(body[0])[:120] if body else 'nothing'))
    for n in body[1:]:
        if not (isinstance(n, ast.Raise) and (n.exc is None or isinstance(n.exc, ast.Name)
                                              or (isinstance(n.exc, ast.Call) and isinstance(n.exc.func, ast.Name) and not n.exc.args))):
            raise SkelError('%s: unexpected statement after terminate() in the handler for %s' % (fname, '/'.join(names)))
    return names


# calls the loop body may make.  value: which exceptions outside the handled set {KeyboardInterrupt, IOError,
# sec.*} the call can let out ('' = none by its own contract).  A call or an object comparison that is not
# listed here makes the extraction fail: a new kind of call in the loop has to be looked at.
LOOP_CALLS = {
    'terminate': '', 'self.terminate': '', 'isinstance': '', 'len': '', 'log.error': '', 'log.debug': '',
    'self.exchange': '',              # catches nfc.clf.CommunicationError and pdu.Error itself
    'pdu.Symmetry': '', 'pdu.Disconnect': '', 'pdu.DataProtectionSetup': '',
    'sec.cipher_suite': '', 'cipher.calculate_session_key': '',
    'self.collect': 'pdu.EncodeError (C10/C11: what is collected can be encoded)',
    'self.dispatch': 'exceptions of socket enqueue (C07)',
}
LOOP_PDU_EQ = 'rcvd_pdu == pdu.Disconnect(0, 0)'      # ProtocolDataUnit.__eq__ encodes both sides


def loop_uncovered(fn, tr):
    """the calls in the try body that can raise something the handlers do not cover; fails closed on new ones"""
    unc = []
    for n in tr.body:
        for m in ast.walk(n):
            if isinstance(m, ast.Call):
                d = dotted(m.func)
                if d not in LOOP_CALLS:
                    raise SkelError('%s: unclassified call %s in the link loop' % (fn.name, d or ast.dump(m.func)[:60]))
                if LOOP_CALLS[d] and d not in [u.split(':')[0] for u in unc]:
                    unc.append('%s: %s' % (d, LOOP_CALLS[d]))
            elif isinstance(m, ast.Compare):
                simple = all(isinstance(x, (ast.Constant, ast.Name)) or dotted(x) is not None
                             or (isinstance(x, ast.Call) and dotted(x.func) == 'len')
                             or (isinstance(x, ast.Subscript) and dotted(x.value) == 'self.cfg')
                             for x in [m.left] + m.comparators)
                is_ident = all(isinstance(o, (ast.Is, ast.IsNot)) for o in m.ops)
                obj_eq = (not is_ident) and any(isinstance(x, ast.Call) and dotted(x.func) != 'len' for x in [m.left] + m.comparators)
                if obj_eq:
                    if ast.unparse(m) != LOOP_PDU_EQ:
                        raise SkelError('%s: unclassified object comparison `%s` in the link loop' % (fn.name, ast.unparse(m)))
                    u = '==: ProtocolDataUnit.__eq__ encodes the received PDU, pdu.EncodeError is not handled (C11: encode of a decoded PDU)'
                    if u not in unc:
                        unc.append(u)
                elif not simple:
                    raise SkelError('%s: unclassified comparison `%s` in the link loop' % (fn.name, ast.unparse(m)))
    return unc


def check_run_loop(fn):
    body = [n for n in fn.body if not (isinstance(n, ast.Expr) and isinstance(n.value, ast.Constant))]
    if not body or not isinstance(body[-1], ast.Try):
        raise SkelError('%s: does not end in a try statement' % fn.name)
    for n in body[:-1]:
        for m in ast.walk(n):
            if isinstance(m, (ast.Return, ast.Raise, ast.While, ast.For)):
                raise SkelError('%s: control flow before the try statement' % fn.name)
    tr = body[-1]
    if not tr.finalbody or not all(is_log_call(n) for n in tr.finalbody):
        raise SkelError('%s: the finally clause does more than logging' % fn.name)
    if tr.orelse:
        raise SkelError('%s: try/else' % fn.name)
    for n in tr.body:
        for m in ast.walk(n):
            if isinstance(m, (ast.FunctionDef, ast.Lambda, ast.Try)):
                raise SkelError('%s: nested %s in the loop body' % (fn.name, type(m).__name__))
            if isinstance(m, ast.Return) and not is_const_terminate(m.value):
                raise SkelError('%s: a return inside the loop that is not `return self.terminate(reason=<constant>)`' % fn.name)
            if isinstance(m, ast.While):
                if not m.orelse or not any(isinstance(x, ast.Expr) and is_const_terminate(x.value) for x in m.orelse):
                    raise SkelError('%s: the while loop can end without terminate()' % fn.name)
    if not any(isinstance(m, ast.While) for n in tr.body for m in ast.walk(n)):
        raise SkelError('%s: no loop found' % fn.name)
    handled = []
    for h in tr.handlers:
        handled += check_handler(fn.name, h)
    return handled, loop_uncovered(fn, tr)


# ---------------------------------------------------------------- terminate()
# Obligation "the loop that shuts down ALL service access points (63..0, which includes access point 1, the
# 'link terminated' marker that bind() tests) runs inside ONE critical section of self.lock": then a bind()
# either comes before (its access point is shut down by the loop) or after (it sees sap[1] is None and
# raises ESHUTDOWN).  Required shape of LogicalLinkController.terminate (anything else FAILS closed):
#     <logging>
#     try: <talk to the peer / device>            (no access to self.sap, no loop)
#     finally:
#         with self.lock:
#             for i in range(63, -1, -1):
#                 if not self.sap[i] is None:  <logging>; self.sap[i].shutdown(); self.sap[i] = None
#         self.link.SHUTDOWN = True
def check_terminate(fn):
    def fail(msg):
        raise SkelError('terminate: ' + msg)
    body = [n for n in fn.body if not (isinstance(n, ast.Expr) and isinstance(n.value, ast.Constant)) and not is_log_call(n)]
    if len(body) != 1 or not isinstance(body[0], ast.Try) or body[0].handlers or body[0].orelse or not body[0].finalbody:
        fail('is not <logging>; try: ... finally: ...')
    tr = body[0]
    for n in tr.body:
        for m in ast.walk(n):
            if isinstance(m, (ast.For, ast.While, ast.With)) or dotted(m) == 'self.sap' or dotted(m) == 'self.lock':
                fail('the try body touches self.sap / self.lock or loops')
    fin = [n for n in tr.finalbody if not is_log_call(n)]
    if len(fin) != 2:
        fail('the finally clause is not `with self.lock: <loop>` followed by `self.link.SHUTDOWN = True`')
    w, a = fin
    if not (isinstance(w, ast.With) and len(w.items) == 1 and dotted(w.items[0].context_expr) == 'self.lock'):
        fail('the loop over the access points is not inside one `with self.lock:` (found %s)' % type(w).__name__)
    if not (isinstance(a, ast.Assign) and dotted(a.targets[0]) == 'self.link.SHUTDOWN'):
        fail('no `self.link.SHUTDOWN = True` after the critical section')
    wb = [n for n in w.body if not is_log_call(n)]
    if len(wb) != 1 or not isinstance(wb[0], ast.For):
        fail('the critical section is not exactly the loop over the access points')
    f = wb[0]
    it = f.iter
    if not (isinstance(it, ast.Call) and dotted(it.func) == 'range' and len(it.args) == 3
            and [ast.literal_eval(x) for x in it.args] == [63, -1, -1] and isinstance(f.target, ast.Name) and not f.orelse):
        fail('the loop is not `for i in range(63, -1, -1)`')
    v = f.target.id
    fb = [n for n in f.body if not is_log_call(n)]
    if len(fb) != 1 or not isinstance(fb[0], ast.If) or fb[0].orelse:
        fail('loop body is not a single `if not self.sap[i] is None:`')
    test = fb[0].test

    def is_sap_i(e):
        return isinstance(e, ast.Subscript) and dotted(e.value) == 'self.sap' and isinstance(e.slice, ast.Name) and e.slice.id == v
    ok_test = (isinstance(test, ast.UnaryOp) and isinstance(test.op, ast.Not) and isinstance(test.operand, ast.Compare)
               and is_sap_i(test.operand.left) and isinstance(test.operand.ops[0], ast.Is)) or \
              (isinstance(test, ast.Compare) and is_sap_i(test.left) and isinstance(test.ops[0], ast.IsNot))
    if not ok_test:
        fail('unexpected test in the loop')
    ib = [n for n in fb[0].body if not is_log_call(n)]
    if len(ib) != 2:
        fail('the access point is not shut down and cleared')
    c, z = ib
    if not (isinstance(c, ast.Expr) and isinstance(c.value, ast.Call) and isinstance(c.value.func, ast.Attribute)
            and c.value.func.attr == 'shutdown' and is_sap_i(c.value.func.value) and not c.value.args):
        fail('no self.sap[i].shutdown()')
    if not (isinstance(z, ast.Assign) and is_sap_i(z.targets[0]) and isinstance(z.value, ast.Constant) and z.value.value is None):
        fail('no self.sap[i] = None')
    return ['with self.lock', 'for i in range(63,-1,-1)', 'self.sap[i].shutdown()', 'self.sap[i] = None', 'self.link.SHUTDOWN = True']


SKIP_METHODS = {'__init__', '__str__', 'log', 'err'}
# the blocking primitives of the base class are only reached through the subclass methods that wrap
# them (inlined there); a subclass that does not override one of them does not offer it through the
# llc socket API (llc.py calls sendto/recvfrom on a LogicalDataLink, never send/recv)
BASE_PRIMITIVES = {'send', 'recv', 'poll', 'close', 'enqueue', 'dequeue'}


def generate(repo_root):
    t = load(repo_root, TCO)
    ll = load(repo_root, LLC)
    for need in ('TransmissionControlObject', 'RawAccessPoint', 'LogicalDataLink', 'DataLinkConnection'):
        if need not in t:
            raise SkelError('class %s not found' % need)
    # the logging helpers must be what the whitelist says they are
    for n in t['DataLinkConnection'].body:
        if isinstance(n, ast.FunctionDef) and n.name in SELF_LOG:
            for m in ast.walk(n):
                if isinstance(m, ast.Call) and not (dotted(m.func) or '').startswith(('log.', '"')) \
                        and not (isinstance(m.func, ast.Attribute) and m.func.attr == 'format'):
                    raise SkelError('DataLinkConnection.%s is not a pure logging helper' % n.name)
    out = ['(* GENERATED by translate/skel_c09.py from %s and %s - do not edit *)' % (TCO, LLC),
           'From Coq Require Import List String.', 'From NV Require Import Model.LlcLife Skel.WaitSyntax.',
           'Import ListNotations.', 'Open Scope string_scope.', '']
    entries = []
    for cname in ('RawAccessPoint', 'LogicalDataLink', 'DataLinkConnection'):
        mro = [cname, 'TransmissionControlObject']
        conds = class_conds(t, mro)
        locks = {'self.lock'} | {'self.' + k for k, v in COND.items() if v in conds}
        cx = Ctx(t, mro, locks)
        out.append('Definition conds_%s : list cond := [%s].' % (cname, '; '.join(conds)))
        seen = set()
        for c in mro:
            for n in t[c].body:
                if isinstance(n, ast.FunctionDef) and n.name not in SKIP_METHODS and n.name not in seen:
                    if any(isinstance(d, ast.Name) and d.id == 'property' for d in n.decorator_list):
                        continue
                    if c != cname and n.name in BASE_PRIMITIVES:
                        continue
                    seen.add(n.name)
                    body = block(Ctx(t, mro, locks, ((c, n.name),)), n.body)
                    ident = '%s_%s' % (cname, n.name)
                    out.append('Definition %s : stmt := %s.' % (ident, body))
                    entries.append(('%s.%s' % (cname, n.name), 'conds_' + cname, ident))
        del cx
    sd = ll.get('ServiceDiscovery')
    if sd is None:
        raise SkelError('class ServiceDiscovery not found')
    conds = class_conds(ll, ['ServiceDiscovery'])
    out.append('Definition conds_ServiceDiscovery : list cond := [%s].' % '; '.join(conds))
    locks = {'self.llc.lock', 'self.resp'}
    for n in sd.body:
        if isinstance(n, ast.FunctionDef) and n.name not in SKIP_METHODS:
            if any(isinstance(d, ast.Name) and d.id == 'property' for d in n.decorator_list):
                continue
            body = block(Ctx(ll, ['ServiceDiscovery'], locks, (('ServiceDiscovery', n.name),)), n.body)
            ident = 'ServiceDiscovery_%s' % n.name
            out.append('Definition %s : stmt := %s.' % (ident, body))
            entries.append(('ServiceDiscovery.%s' % n.name, 'conds_ServiceDiscovery', ident))
    llc_cls = ll.get('LogicalLinkController')
    if llc_cls is None:
        raise SkelError('class LogicalLinkController not found')
    loops = []
    uncovered = []
    for name in RUN_LOOPS:
        fns = [n for n in llc_cls.body if isinstance(n, ast.FunctionDef) and n.name == name]
        if len(fns) != 1:
            raise SkelError('method %s not found' % name)
        handled, unc = check_run_loop(fns[0])
        loops.append('("%s", [%s])' % (name, '; '.join('"%s"' % h for h in handled)))
        uncovered.append('("%s", [%s])' % (name, '; '.join('"%s"' % u for u in unc)))
    out.append('')
    out.append('(* the run loops: exception classes whose handler calls self.terminate(<constant>) first (every other')
    out.append('   exit of the try body is `return self.terminate(..)` or the while/else clause with terminate) *)')
    out.append('Definition run_loop_handled : list (string * list string) :=')
    out.append('  [' + ';\n   '.join(loops) + '].')
    out.append('(* calls in the loop body whose exceptions no handler covers (termination then rests on the named property) *)')
    out.append('Definition run_loop_uncovered : list (string * list string) :=')
    out.append('  [' + ';\n   '.join(uncovered) + '].')
    tfn = [n for n in llc_cls.body if isinstance(n, ast.FunctionDef) and n.name == 'terminate']
    if len(tfn) != 1:
        raise SkelError('method terminate not found')
    shape_t = check_terminate(tfn[0])
    out.append('')
    out.append('(* terminate(): nesting of the final shutdown, outermost first (checked shape, see translate/skel_c09.py) *)')
    out.append('Definition terminate_nesting : list string := [%s].' % '; '.join('"%s"' % x for x in shape_t))
    out.append('')
    out.append('Definition tco_skel : list (string * list cond * stmt) :=')
    out.append('  [' + ';\n   '.join('("%s", %s, %s)' % e for e in entries) + '].')
    return ('\n'.join(out) + '\n').replace('ExitR', 'Exit')


generate.SOURCE = TCO + ' + ' + LLC

if __name__ == '__main__':
    import sys
    print(generate(sys.argv[1] if len(sys.argv) > 1 else os.environ.get('NV_REPO', '/repo')))
