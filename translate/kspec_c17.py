"""C17 kernel tie: the address-allocation logic of src/nfc/llcp/llc.py is regenerated on every run as Gallina
functions over an abstract occupancy table (coq/Gen/AddrK.v); coq/Bridge/Addr.v proves them equal to the
allocation functions of Model/Addr.v.

  wks_map                                 -> gen_c17_wks : list Z -> option Z          (the dict literal)
  LogicalLinkController._bind_by_none     -> gen_c17_bind_none occ
  LogicalLinkController._bind_by_addr     -> gen_c17_bind_addr occ is_raw addr
  LogicalLinkController._bind_by_name     -> gen_c17_bind_name occ name_ok name_bound name
        result: inl (address, name_registered) | inr errno
  ServiceAccessPoint.remove_socket        -> gen_c17_remove_frees n_socks, gen_c17_name_dropped addr self_addr
  ServiceAccessPoint.enqueue              -> gen_c17_peer_match ssap peer, gen_c17_dm_unbound, gen_c17_dm_inactive
  LogicalLinkController.dispatch          -> gen_c17_cbn_absent addr free, gen_c17_cbn_reason sn_none

`occ : list bool` stands for `[x is None for x in self.sap]`.  The functions are methods with locks, object
construction and exceptions, outside py2coq as whole functions; this generator walks their statement trees with
a small continuation-style translator of its own (arithmetic sub-expressions go through py2coq).

Statements understood (anything else raises, the Gen file then cannot compile and every bridge obligation breaks):
  with self.lock / self.llc.lock: S               -> S
  if C: S1 [else: S2] ; REST                      -> if C then S1;REST else S2;REST
  raise err.Error(errno.NAME)                     -> inr <value of errno.NAME>
  try: addr = K + self.sap[LO:HI].index(None)
  except ValueError: raise err.Error(errno.NAME)
  [else: S] ; REST                                -> match sap_index_none occ LO HI with Some k => let addr := K + k in S;REST | None => inr .. end
  addr = wks_map.get(name) ; if addr is None: S1 [elif/else S2] ; REST
                                                  -> match gen_c17_wks name with None => S1;REST | Some addr => S2;REST end
  socket.bind(addr); self.sap[addr] = ServiceAccessPoint(addr, self); self.sap[addr].insert_socket(socket)
  [; self.snl[name] = addr]   (end of function)   -> inl (addr, <whether the name is registered>)
Conditions:
  not C | C and C | C or C | addr <cmp> int | addr in range(a, b) | isinstance(socket, tco.RawAccessPoint) -> is_raw
  | self.sap[addr] is [not] None -> occ_free occ addr | service_name_format.match(name) -> name_ok
  | self.snl.get(name) is not None -> name_bound
nfc.llcp.socket.Socket (the application's handle): every method must be exactly
  `return self.llc.M(self._tco, <its own parameters, in order>)`  -> gen_c17_Socket_M f tco a1 .. an := f tco a1 .. an
(accept: a new Socket around llc.accept(self._tco); resolve: llc.resolve(name); __init__/llc property: the stored
controller and llc.socket(sock_type)); the default of bind's address must be None.  A test, a conversion or a
default in between (e.g. `if not address:`) is rejected.
NOT translated: the regular expression service_name_format (a parameter `name_ok`; Model.name_valid is tied to it
by the correspondence run only), the dictionary self.snl (parameter `name_bound`), object construction.
"""
import ast
import errno as _errno
import os
import sys

sys.path.insert(0, os.path.dirname(os.path.abspath(__file__)))
import py2coq  # noqa: E402

Unsupported = py2coq.Unsupported
LLC = 'src/nfc/llcp/llc.py'
SOCK = 'src/nfc/llcp/socket.py'


def U(n):
    return ast.unparse(n)


def intconst(e, what):
    if isinstance(e, ast.Constant) and isinstance(e.value, int) and not isinstance(e.value, bool):
        return e.value
    raise Unsupported('%s: integer literal expected, got %s' % (what, U(e)))


def zlit(v):
    return '%d' % v if v >= 0 else '(%d)' % v


def errno_of(stmt):
    """raise err.Error(errno.NAME) -> numeric value"""
    if not (isinstance(stmt, ast.Raise) and stmt.cause is None and isinstance(stmt.exc, ast.Call) and
            U(stmt.exc.func) == 'err.Error' and len(stmt.exc.args) == 1 and not stmt.exc.keywords):
        raise Unsupported('raise form: ' + U(stmt))
    a = stmt.exc.args[0]
    if not (isinstance(a, ast.Attribute) and isinstance(a.value, ast.Name) and a.value.id == 'errno' and hasattr(_errno, a.attr)):
        raise Unsupported('errno form: ' + U(a))
    return getattr(_errno, a.attr), a.attr


class Alloc(object):
    """translator of one _bind_by_* method body to a Coq term of type (Z * bool) + Z"""

    PLACE = ['socket.bind(addr)', 'self.sap[addr] = ServiceAccessPoint(addr, self)', 'self.sap[addr].insert_socket(socket)']

    def cond(self, e):
        if isinstance(e, ast.UnaryOp) and isinstance(e.op, ast.Not):
            return '(negb %s)' % self.cond(e.operand)
        if isinstance(e, ast.BoolOp):
            op = ' && ' if isinstance(e.op, ast.And) else ' || '
            return '(' + op.join(self.cond(v) for v in e.values) + ')'
        if isinstance(e, ast.Compare) and len(e.ops) == 1:
            l, op, r = e.left, e.ops[0], e.comparators[0]
            if isinstance(l, ast.Name) and l.id == 'addr' and type(op) in py2coq.CMPOPS:
                return py2coq.CMPOPS[type(op)] % ('addr', zlit(intconst(r, 'comparison')))
            if (isinstance(l, ast.Name) and l.id == 'addr' and isinstance(op, ast.In) and isinstance(r, ast.Call) and
                    U(r.func) == 'range' and len(r.args) == 2 and not r.keywords):
                return '((%s <=? addr) && (addr <? %s))' % (zlit(intconst(r.args[0], 'range')), zlit(intconst(r.args[1], 'range')))
            if U(l) == 'self.sap[addr]' and isinstance(r, ast.Constant) and r.value is None:
                if isinstance(op, ast.Is):
                    return '(occ_free occ addr)'
                if isinstance(op, ast.IsNot):
                    return '(negb (occ_free occ addr))'
            if U(l) == 'self.snl.get(name)' and isinstance(op, ast.IsNot) and isinstance(r, ast.Constant) and r.value is None:
                return 'name_bound'
        if U(e) == 'isinstance(socket, tco.RawAccessPoint)':
            return 'is_raw'
        if U(e) == 'service_name_format.match(name)':
            return 'name_ok'
        raise Unsupported('condition: ' + U(e))

    def block(self, stmts):
        if not stmts:
            raise Unsupported('allocation function may end without binding or raising')
        s, rest = stmts[0], stmts[1:]
        if isinstance(s, ast.Expr) and isinstance(s.value, ast.Constant) and isinstance(s.value.value, str):
            return self.block(rest)
        if isinstance(s, ast.With):
            if len(s.items) != 1 or U(s.items[0].context_expr) != 'self.lock' or s.items[0].optional_vars is not None:
                raise Unsupported('with form: ' + U(s.items[0].context_expr))
            return self.block(s.body + rest)
        if isinstance(s, ast.Raise):
            return '(inr %s)' % zlit(errno_of(s)[0])
        if isinstance(s, ast.If):
            return '(if %s\n then %s\n else %s)' % (self.cond(s.test), self.block(s.body + rest), self.block(s.orelse + rest))
        if isinstance(s, ast.Try):
            if s.finalbody or len(s.handlers) != 1 or len(s.body) != 1 or U(s.handlers[0].type) != 'ValueError' or \
                    s.handlers[0].name is not None or len(s.handlers[0].body) != 1:
                raise Unsupported('try form')
            a = s.body[0]
            if not (isinstance(a, ast.Assign) and len(a.targets) == 1 and U(a.targets[0]) == 'addr' and
                    isinstance(a.value, ast.BinOp) and isinstance(a.value.op, ast.Add)):
                raise Unsupported('try body: ' + U(a))
            base = intconst(a.value.left, 'scan base')
            c = a.value.right
            if not (isinstance(c, ast.Call) and isinstance(c.func, ast.Attribute) and c.func.attr == 'index' and
                    len(c.args) == 1 and isinstance(c.args[0], ast.Constant) and c.args[0].value is None and not c.keywords and
                    isinstance(c.func.value, ast.Subscript) and U(c.func.value.value) == 'self.sap' and
                    isinstance(c.func.value.slice, ast.Slice) and c.func.value.slice.step is None and
                    c.func.value.slice.lower is not None and c.func.value.slice.upper is not None):
                raise Unsupported('scan form: ' + U(c))
            lo = intconst(c.func.value.slice.lower, 'scan lower bound')
            hi = intconst(c.func.value.slice.upper, 'scan upper bound')
            e = errno_of(s.handlers[0].body[0])[0]
            return ('(match sap_index_none occ %s %s with\n | Some k => let addr := %s + k in %s\n | None => inr %s\n end)'
                    % (zlit(lo), zlit(hi), zlit(base), self.block(s.orelse + rest), zlit(e)))
        if isinstance(s, ast.Assign) and U(s) == 'addr = wks_map.get(name)':
            if not (rest and isinstance(rest[0], ast.If) and U(rest[0].test) == 'addr is None'):
                raise Unsupported('wks_map.get(name) must be followed by `if addr is None`')
            i, rest2 = rest[0], rest[1:]
            return ('(match gen_c17_wks name with\n | None => %s\n | Some addr => %s\n end)'
                    % (self.block(i.body + rest2), self.block(i.orelse + rest2)))
        # the placement sequence must be the end of the function
        srcs = [U(x) for x in stmts]
        if srcs[:3] == self.PLACE:
            if srcs[3:] == []:
                return '(inl (addr, false))'
            if srcs[3:] == ['self.snl[name] = addr']:
                return '(inl (addr, true))'
        raise Unsupported('statement: ' + U(s)[:80])


PRELUDE = """(* GENERATED by translate/kspec_c17.py from %(src)s -- do not edit *)
From Coq Require Import ZArith List Bool.
From NV Require Import Base.Bytes Base.PyPrims.
Import ListNotations.
Open Scope Z_scope.

(* occ = [x is None for x in self.sap] *)
Definition occ_free (occ : list bool) (a : Z) : bool :=
  if (0 <=? a) && (a <? len occ) then nth (Z.to_nat a) occ false else false.
Fixpoint index_true (l : list bool) (k : Z) : option Z :=
  match l with [] => None | b :: t => if b then Some k else index_true t (k + 1) end.
(* self.sap[lo:hi].index(None); None = ValueError *)
Definition sap_index_none (occ : list bool) (lo hi : Z) : option Z := index_true (pyslice occ lo hi) 0.

"""


def only(what, got):
    if len(got) != 1:
        raise Unsupported('%s: expected exactly one, found %d' % (what, len(got)))
    return got[0]


def gen_wks(tree):
    d = only('module-level wks_map', [s for s in tree.body if isinstance(s, ast.Assign) and len(s.targets) == 1 and U(s.targets[0]) == 'wks_map'])
    if not isinstance(d.value, ast.Dict):
        raise Unsupported('wks_map is not a dict literal')
    body = 'None'
    for k, v in reversed(list(zip(d.value.keys, d.value.values))):
        if not (isinstance(k, ast.Constant) and isinstance(k.value, bytes)):
            raise Unsupported('wks_map key: ' + U(k))
        body = 'if list_eqb name [%s] then Some %s else %s' % ('; '.join(str(b) for b in k.value), zlit(intconst(v, 'wks_map value')), body)
    # no other statement may touch wks_map
    for n in ast.walk(tree):
        if isinstance(n, (ast.Assign, ast.AugAssign, ast.Delete)) and n is not d and 'wks_map' in U(n).split('=')[0]:
            raise Unsupported('wks_map is modified: ' + U(n)[:60])
    return 'Definition gen_c17_wks (name : list Z) : option Z :=\n  %s.\n' % body


def method_args(fn, expected):
    got = [a.arg for a in fn.args.args]
    if got != expected or fn.args.vararg or fn.args.kwarg or fn.args.kwonlyargs or fn.args.defaults:
        raise Unsupported('%s: arguments %s, expected %s' % (fn.name, got, expected))


def gen_remove(tree):
    fn = py2coq.find_function(tree, 'ServiceAccessPoint.remove_socket')
    ifs = [n for n in ast.walk(fn) if isinstance(n, ast.If)]
    i = only('remove_socket: if', ifs)
    if i.orelse:
        raise Unsupported('remove_socket: the emptiness test has an else branch')
    t = i.test
    if not (isinstance(t, ast.Compare) and len(t.ops) == 1 and U(t.left) == 'len(self.sock_list)'):
        raise Unsupported('remove_socket: test is not about len(self.sock_list): ' + U(t))
    k1 = py2coq.Fn(ast.parse('def k(n_socks):\n    return %s\n' % U(ast.Compare(left=ast.Name(id='n_socks', ctx=ast.Load()), ops=t.ops,
                                                                                 comparators=t.comparators))).body[0],
                   {'n_socks': 'int'}, coqname='gen_c17_remove_frees').translate()
    # inside: the SAP slot is cleared and exactly the names bound to this address are deleted
    body = [U(x) for x in i.body if not (isinstance(x, ast.Expr) and isinstance(x.value, ast.Constant))]
    if len(i.body) != 2 or U(i.body[0]) != 'self.llc.sap[self.addr] = None' or not isinstance(i.body[1], ast.For):
        raise Unsupported('remove_socket: body of the emptiness test changed: %s' % body)
    f = i.body[1]
    if f.orelse or U(f.target) != 'name' or [U(x) for x in f.body] != ['del self.llc.snl[name]'] or not isinstance(f.iter, ast.ListComp):
        raise Unsupported('remove_socket: name clean-up loop changed')
    lc = f.iter
    g = only('remove_socket: comprehension generators', lc.generators)
    if U(lc.elt) != 'name' or U(g.target) != '(name, addr)' or U(g.iter) != 'self.llc.snl.items()' or g.is_async:
        raise Unsupported('remove_socket: name clean-up comprehension changed')
    c = only('remove_socket: comprehension condition', g.ifs)
    e = py2coq.Fn(ast.parse('def k(addr, self_addr):\n    return %s\n' % U(c).replace('self.addr', 'self_addr')).body[0],
                  {'addr': 'int', 'self_addr': 'int'}, coqname='gen_c17_name_dropped').translate()
    # the list is only shortened by removing this socket
    rm = [n for n in ast.walk(fn) if isinstance(n, ast.Call) and U(n.func).startswith('self.sock_list.')]
    if [U(x) for x in rm] != ['self.sock_list.remove(socket)']:
        raise Unsupported('remove_socket: sock_list is changed otherwise: %s' % [U(x) for x in rm])
    return k1 + '\n' + e


def peer_cond(e):
    """condition over (ssap : Z) (peer : option Z)"""
    if isinstance(e, ast.BoolOp):
        op = ' && ' if isinstance(e.op, ast.And) else ' || '
        return '(' + op.join(peer_cond(v) for v in e.values) + ')'
    if isinstance(e, ast.Compare) and len(e.ops) == 1:
        l, op, r = U(e.left), e.ops[0], e.comparators[0]
        if l == 'rcvd_pdu.ssap' and isinstance(op, ast.Eq) and U(r) == 'socket.peer':
            return '(match peer with Some p => ssap =? p | None => false end)'
        if l == 'socket.peer' and isinstance(op, ast.Eq) and U(r) == 'rcvd_pdu.ssap':
            return '(match peer with Some p => p =? ssap | None => false end)'
        if l == 'socket.peer' and isinstance(op, ast.Is) and isinstance(r, ast.Constant) and r.value is None:
            return '(match peer with None => true | Some _ => false end)'
    raise Unsupported('peer condition: ' + U(e))


def gen_enqueue(tree):
    fn = py2coq.find_function(tree, 'ServiceAccessPoint.enqueue')
    method_args(fn, ['self', 'rcvd_pdu'])
    w = only('enqueue: statements', fn.body)
    if not (isinstance(w, ast.With) and U(w.items[0].context_expr) == 'self.llc.lock'):
        raise Unsupported('enqueue: not under the controller lock')
    top = only('enqueue: statements under the lock', w.body)
    if not (isinstance(top, ast.If) and U(top.test) == 'isinstance(rcvd_pdu, pdu.Connect)'):
        raise Unsupported('enqueue: CONNECT split changed')

    def loop(stmts, what):
        f = only(what + ': loop', stmts)
        if not (isinstance(f, ast.For) and U(f.target) == 'socket' and U(f.iter) == 'self.sock_list'):
            raise Unsupported(what + ': not a loop over self.sock_list in order')
        i = only(what + ': loop body', f.body)
        if not (isinstance(i, ast.If) and not i.orelse and [U(x) for x in i.body] == ['socket.enqueue(rcvd_pdu)', 'break']):
            raise Unsupported(what + ': the first matching socket must get the PDU and end the loop')
        return i.test, f.orelse

    def dm(stmts, what):
        if len(stmts) != 2 or not isinstance(stmts[0], ast.Assign) or U(stmts[0].targets[0]) != 'args' or \
                U(stmts[1]) != 'self.send(pdu.DisconnectedMode(*args))' or not isinstance(stmts[0].value, ast.Tuple):
            raise Unsupported(what + ': DM answer changed')
        el = stmts[0].value.elts
        if len(el) != 3 or U(el[0]) != 'rcvd_pdu.ssap' or U(el[1]) != 'rcvd_pdu.dsap':
            raise Unsupported(what + ': DM addressing changed')
        return intconst(el[2], what + ': DM reason')

    t1, e1 = loop(top.body, 'enqueue (CONNECT)')
    if U(t1) != 'socket.state.LISTEN':
        raise Unsupported('enqueue (CONNECT): only a listening socket may get a CONNECT: ' + U(t1))
    r_unbound = dm(e1, 'enqueue (CONNECT, nobody listens)')
    t2, e2 = loop(top.orelse, 'enqueue (other PDU)')
    i2 = only('enqueue (other PDU, no socket)', e2)
    if not (isinstance(i2, ast.If) and U(i2.test) == 'rcvd_pdu.name in tco.DataLinkConnection.DLC_PDU_NAMES'):
        raise Unsupported('enqueue (other PDU, no socket): test changed')
    r_inactive = dm(i2.body, 'enqueue (connection PDU, no socket)')
    for x in i2.orelse:
        if not (isinstance(x, ast.Expr) and isinstance(x.value, ast.Call) and U(x.value.func).startswith('log.')):
            raise Unsupported('enqueue (other PDU, no socket): something happens to an undeliverable PDU: ' + U(x))
    return ('Definition gen_c17_peer_match (ssap : Z) (peer : option Z) : bool :=\n  %s.\n\n'
            'Definition gen_c17_dm_unbound : Z := %s.\nDefinition gen_c17_dm_inactive : Z := %s.\n'
            % (peer_cond(t2), zlit(r_unbound), zlit(r_inactive)))


def gen_dispatch(tree):
    fn = py2coq.find_function(tree, 'LogicalLinkController.dispatch')
    i = only('dispatch: connect-by-name branch', [n for n in fn.body if isinstance(n, ast.If) and 'CONNECT' in U(n.test)])
    if U(i.test) not in ("rcvd_pdu.name == 'CONNECT' and rcvd_pdu.dsap == 1",) or i.orelse:
        raise Unsupported('dispatch: connect-by-name test changed: ' + U(i.test))
    if U(i.body[0]) != 'addr = self.snl.get(rcvd_pdu.sn)' or not isinstance(i.body[1], ast.If) or i.body[1].orelse:
        raise Unsupported('dispatch: connect-by-name lookup changed')
    t = i.body[1].test
    if U(t) != 'not addr or self.sap[addr] is None':
        raise Unsupported('dispatch: connect-by-name absence test changed: ' + U(t))
    inner = [U(x) for x in i.body[1].body]
    if not (inner[0].startswith('dm_reason = ') and inner[1] == 'dm_pdu = pdu.DisconnectedMode(rcvd_pdu.ssap, 1, dm_reason)' and
            inner[2] == 'self.sap[1].dmpdu.append(dm_pdu)' and inner[-1] == 'return'):
        raise Unsupported('dispatch: connect-by-name DM answer changed')
    r = i.body[1].body[0].value
    if not (isinstance(r, ast.IfExp) and U(r.test) == 'rcvd_pdu.sn is None'):
        raise Unsupported('dispatch: DM reason expression changed')
    last = i.body[-1]
    if not U(last).replace(' ', '').replace('\n', '').startswith('rcvd_pdu=pdu.Connect(dsap=addr,ssap=rcvd_pdu.ssap,'):
        raise Unsupported('dispatch: CONNECT is not rewritten to the resolved address: ' + U(last))
    lk = [n for n in ast.walk(fn) if isinstance(n, ast.Assign) and U(n.targets[0]) == 'sap']
    if [U(x.value) for x in lk] != ['self.sap[rcvd_pdu.dsap]']:
        raise Unsupported('dispatch: the access point is not looked up by DSAP')
    return ('Definition gen_c17_cbn_absent (addr : option Z) (free : bool) : bool :=\n'
            '  (match addr with Some a => a =? 0 | None => true end) || free.\n\n'
            'Definition gen_c17_cbn_reason (sn_none : bool) : Z := if sn_none then %s else %s.\n'
            % (zlit(intconst(r.body, 'DM reason')), zlit(intconst(r.orelse, 'DM reason'))))


PASS = [  # method, llc method, parameters, defaults (source text)
    ('setsockopt', 'setsockopt', ['option', 'value'], []),
    ('getsockopt', 'getsockopt', ['option'], []),
    ('bind', 'bind', ['address'], ['None']),
    ('connect', 'connect', ['address'], []),
    ('listen', 'listen', ['backlog'], []),
    ('send', 'send', ['data', 'flags'], ['0']),
    ('sendto', 'sendto', ['data', 'addr', 'flags'], ['0']),
    ('recv', 'recv', [], []),
    ('recvfrom', 'recvfrom', [], []),
    ('poll', 'poll', ['event', 'timeout'], ['None']),
    ('getsockname', 'getsockname', [], []),
    ('getpeername', 'getpeername', [], []),
    ('close', 'close', [], []),
]


def body_of(fn):
    b = fn.body
    if b and isinstance(b[0], ast.Expr) and isinstance(b[0].value, ast.Constant) and isinstance(b[0].value.value, str):
        b = b[1:]
    return b


def gen_socket(repo):
    tree = ast.parse(open(os.path.join(repo, SOCK), encoding='latin-1').read())
    cls = only('class Socket', [n for n in tree.body if isinstance(n, ast.ClassDef) and n.name == 'Socket'])
    meths = dict((n.name, n) for n in cls.body if isinstance(n, ast.FunctionDef))
    known = set(m for m, _, _, _ in PASS) | {'__init__', 'llc', 'resolve', 'accept'}
    if set(meths) != known:
        raise Unsupported('Socket: methods changed: %s' % sorted(set(meths) ^ known))
    out = ['(* nfc.llcp.socket.Socket: every operation hands its arguments to the link controller unchanged *)\n']
    for m, lm, params, defaults in PASS:
        fn = meths[m]
        method_args2(fn, ['self'] + params, defaults)
        want = 'return self.llc.%s(%s)' % (lm, ', '.join(['self._tco'] + params))
        got = [U(x) for x in body_of(fn)]
        if got != [want]:
            raise Unsupported('Socket.%s is not a plain pass-through: %s' % (m, got))
        tys = ' '.join('A%d' % k for k in range(len(params)))
        bs = ' '.join('(%s : A%d)' % (v, k) for k, v in enumerate(params))
        out.append('Definition gen_c17_Socket_%s {T %s R : Type} (f : T%s -> R) (tco : T) %s : R :=\n  f tco%s.\n'
                   % (m, tys, ''.join(' -> A%d' % k for k in range(len(params))), bs, ''.join(' ' + v for v in params))
                   if params else
                   'Definition gen_c17_Socket_%s {T R : Type} (f : T -> R) (tco : T) : R :=\n  f tco.\n' % m)
    method_args2(meths['resolve'], ['self', 'name'], [])
    if [U(x) for x in body_of(meths['resolve'])] != ['return self.llc.resolve(name)']:
        raise Unsupported('Socket.resolve is not a plain pass-through')
    out.append('Definition gen_c17_Socket_resolve {A R : Type} (f : A -> R) (name : A) : R :=\n  f name.\n')
    method_args2(meths['accept'], ['self'], [])
    if [U(x) for x in body_of(meths['accept'])] != ['socket = Socket(self._llc, None)', 'socket._tco = self.llc.accept(self._tco)', 'return socket']:
        raise Unsupported('Socket.accept changed')
    out.append('Definition gen_c17_Socket_accept {T R : Type} (f : T -> R) (tco : T) : R :=\n  f tco.\n')
    method_args2(meths['__init__'], ['self', 'llc', 'sock_type'], [])
    if [U(x) for x in body_of(meths['__init__'])] != ['self._tco = None if sock_type is None else llc.socket(sock_type)', 'self._llc = llc']:
        raise Unsupported('Socket.__init__ changed')
    if [U(x) for x in body_of(meths['llc'])] != ['return self._llc'] or [U(d) for d in meths['llc'].decorator_list] != ['property']:
        raise Unsupported('Socket.llc changed')
    for m, fn in meths.items():
        if m != 'llc' and fn.decorator_list:
            raise Unsupported('Socket.%s is decorated' % m)
    return '\n'.join(out)


def method_args2(fn, expected, defaults):
    got = [a.arg for a in fn.args.args]
    dfl = [U(d) for d in fn.args.defaults]
    if got != expected or dfl != defaults or fn.args.vararg or fn.args.kwarg or fn.args.kwonlyargs:
        raise Unsupported('%s: arguments %s defaults %s, expected %s %s' % (fn.name, got, dfl, expected, defaults))


def generate(repo):
    tree = ast.parse(open(os.path.join(repo, LLC), encoding='latin-1').read())
    out = [PRELUDE % {'src': LLC + ' (translate/kspec_c17.py)'}]
    out.append(gen_wks(tree))
    for meth, args, binders in (('_bind_by_none', ['self', 'socket'], ''),
                                ('_bind_by_addr', ['self', 'socket', 'addr'], ' (is_raw : bool) (addr : Z)'),
                                ('_bind_by_name', ['self', 'socket', 'name'], ' (name_ok name_bound : bool) (name : list Z)')):
        fn = py2coq.find_function(tree, 'LogicalLinkController.' + meth)
        method_args(fn, args)
        body = Alloc().block(fn.body)
        out.append('Definition gen_c17%s (occ : list bool)%s : (Z * bool) + Z :=\n  %s.\n' % (meth, binders, body.replace('\n', '\n  ')))
    # bind() routes None / int / bytes / str to the three functions and everything else to EFAULT
    b = py2coq.find_function(tree, 'LogicalLinkController.bind')
    route = [n for n in ast.walk(b) if isinstance(n, ast.If) and U(n.test) == 'addr_or_name is None']
    r = only('bind: dispatch on the argument type', route)
    chain, node = [], r
    while True:
        chain.append((U(node.test), [U(x) for x in node.body]))
        if len(node.orelse) == 1 and isinstance(node.orelse[0], ast.If):
            node = node.orelse[0]
        else:
            chain.append(('else', [U(x) for x in node.orelse]))
            break
    want = [('addr_or_name is None', ['self._bind_by_none(socket)']),
            ('isinstance(addr_or_name, int)', ['self._bind_by_addr(socket, addr_or_name)']),
            ('isinstance(addr_or_name, (bytes, bytearray))', ['self._bind_by_name(socket, bytes(addr_or_name))']),
            ('isinstance(addr_or_name, str)', ["self._bind_by_name(socket, addr_or_name.encode('latin'))"])]
    if chain[:4] != want or chain[4][0] != 'else' or len(r_else := [s for s in ast.walk(node) if isinstance(s, ast.Raise)]) < 1:
        raise Unsupported('bind: routing changed: %s' % chain)
    out.append('Definition gen_c17_bind_badtype : Z := %s.\n' % zlit(errno_of(node.orelse[0])[0]))
    pre = [n for n in b.body if isinstance(n, ast.If)]
    if len(pre) < 2 or U(pre[1].test) != 'socket.addr is not None':
        raise Unsupported('bind: the already-bound test changed')
    out.append('Definition gen_c17_bind_twice : Z := %s.\n' % zlit(errno_of(pre[1].body[0])[0]))
    out.append(gen_remove(tree))
    out.append(gen_enqueue(tree))
    out.append(gen_dispatch(tree))
    out.append(gen_socket(repo))
    return '\n'.join(out)


generate.SOURCE = LLC + ' + ' + SOCK
KERNELS = {'AddrK': generate}

if __name__ == '__main__':
    sys.stdout.write(generate(sys.argv[1] if len(sys.argv) > 1 else os.environ.get('NV_REPO', '/repo')))
